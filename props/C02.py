"""C02 -- constructed types keep every component, in order, with the right shape."""
import json
import re
from common import cn, cbool, copt, clist, cstr, run_harness, coq_eval_bad

REQ = ['RasnV.Corr.C02']

PLAIN = [
    ('BOOLEAN', 'bool', 'TRUE'), ('NULL', '()', None), ('INTEGER', 'Integer', '5'), ('INTEGER (0..255)', 'u8', '7'), ('INTEGER (-5..5)', 'i8', '-1'),
    ('INTEGER (0..65535)', 'u16', '300'), ('INTEGER (0..5, ...)', 'Integer', '1'), ('BIT STRING', 'BitString', None),
    ('OCTET STRING', 'OctetString', "'AB'H"), ('OCTET STRING (SIZE (4))', 'OctetString', None), ('OBJECT IDENTIFIER', 'ObjectIdentifier', None),
    ('UTF8String', 'Utf8String', '"x"'), ('IA5String', 'Ia5String', '"x"'), ('PrintableString (SIZE (1..8))', 'PrintableString', None),
    ('VisibleString', 'VisibleString', None), ('NumericString', 'NumericString', None), ('BMPString', 'BmpString', None),
    ('GeneralizedTime', 'GeneralizedTime', None), ('UTCTime', 'UtcTime', None), ('GeneralString', 'GeneralString', None),
]
KEYWORDS = set('as break const continue crate else enum extern false fn for if impl in let loop match mod move mut pub ref return self static '
               'struct super trait true type unsafe use where while async await dyn abstract become box do final macro override priv typeof '
               'unsized virtual yield try union'.split())


def title(s):
    """to_rust_title_case (Model/Names.v title): hyphens become underscores; the first letter and every character after an
    underscore is upper-cased, the underscore itself is dropped"""
    acc = []
    for c in s.replace('-', '_'):
        if not acc:
            acc.append(c.upper() if c.islower() else c)
        elif acc[-1] == '_':
            acc[-1] = c.upper()
        else:
            acc.append(c)
    return ''.join(acc)


class Gen:
    def __init__(self, ck, k, top):
        self.rng = ck.rng
        self.k = k
        self.top = top          # name of the enclosing top-level type (for recursion)
        self.n = 0
        self.tags = set()

    def name(self):
        self.n += 1
        base = self.rng.choice(['ab', 'item', 'val', 'x', 'node', 'my-part', 'a1', 'inner-most'])
        return '%s%d' % (base, self.n)

    def member_type(self, depth, allow_rec):
        r = self.rng.random()
        if r < 0.45 or depth >= 4:
            asn, tok, dflt = self.rng.choice(PLAIN)
            return {'k': 'plain', 'asn': asn, 'tok': tok, 'default': dflt}
        if r < 0.55:
            return {'k': 'ref', 'name': 'Leaf%d' % self.k, 'default': '3'}
        if r < 0.62 and allow_rec:
            self.tags.add('recursive')
            return {'k': 'ref', 'name': self.top, 'rec': True}
        if r < 0.72:
            self.tags.add('nested-enum')
            return {'k': 'enum', 'names': ['e%da' % self.n, 'e%db' % self.n]}
        if r < 0.86:
            self.tags.add('nested')
            return {'k': 'nested', 'c': self.constructed(depth + 1)}
        self.tags.add('of')
        e = self.member_type(depth + 1, False)
        if e['k'] == 'ref' and e.get('rec'):
            e = {'k': 'plain', 'asn': 'BOOLEAN', 'tok': 'bool', 'default': None}
        # the element is written in place without a constraint of its own (a SIZE constraint of an inner SEQUENCE OF counts)
        plain_elem = not ((e['k'] == 'plain' and '(' in e['asn']) or (e['k'] == 'of' and e['size']))
        return {'k': 'of', 'set': self.rng.random() < 0.4, 'elem': e, 'elem_plain': plain_elem,
                'size': self.rng.choice(['', '', ' (SIZE (1..4))'])}

    def constructed(self, depth):
        kind = self.rng.choice(['SEQUENCE', 'SEQUENCE', 'SET', 'CHOICE'])
        nroot = self.rng.choice([0, 1, 2, 3, 5, 12]) if depth == 0 else self.rng.randint(1, 3)
        if kind == 'CHOICE':
            nroot = max(1, nroot)
        marker = self.rng.random() < 0.45
        nadd = self.rng.randint(0, 3) if marker else 0
        root = [self.member(depth, kind) for _ in range(nroot)]
        adds = []
        for _ in range(nadd):
            if kind != 'CHOICE' and self.rng.random() < 0.3:
                self.tags.add('group')
                adds.append({'group': [self.member(depth, kind) for _ in range(self.rng.randint(1, 3))], 'version': self.rng.choice([None, 2])})
            else:
                adds.append(self.member(depth, kind))
        return {'kind': kind, 'root': root, 'marker': marker, 'adds': adds}

    def member(self, depth, kind):
        m = {'name': self.name(), 'ty': self.member_type(depth, allow_rec=True), 'opt': None}
        if kind != 'CHOICE':
            r = self.rng.random()
            if m['ty'].get('rec'):
                m['opt'] = 'OPTIONAL'
            elif r < 0.3:
                m['opt'] = 'OPTIONAL'
            elif r < 0.5 and m['ty'].get('default'):
                m['opt'] = 'DEFAULT'
        if self.rng.random() < 0.15:
            m['tag'] = '[%d] ' % self.rng.randint(0, 40)
        return m


def ty_asn(t):
    k = t['k']
    if k == 'plain':
        return t['asn']
    if k == 'ref':
        return t['name']
    if k == 'enum':
        return 'ENUMERATED { %s }' % ', '.join(t['names'])
    if k == 'nested':
        return cons_asn(t['c'])
    if k == 'of':
        return '%s%s OF %s' % ('SET' if t['set'] else 'SEQUENCE', t['size'], ty_asn(t['elem']))
    raise ValueError(k)


def member_asn(m):
    if 'group' in m:
        return '[[ %s%s ]]' % ('%d: ' % m['version'] if m['version'] else '', ', '.join(member_asn(x) for x in m['group']))
    s = '%s %s%s' % (m['name'], m.get('tag', ''), ty_asn(m['ty']))
    if m['opt'] == 'OPTIONAL':
        s += ' OPTIONAL'
    elif m['opt'] == 'DEFAULT':
        s += ' DEFAULT ' + m['ty']['default']
    return s


def cons_asn(c):
    items = [member_asn(m) for m in c['root']]
    if c['marker']:
        items.append('...')
        items += [member_asn(m) for m in c['adds']]
    return '%s { %s }' % (c['kind'], ', '.join(items))


def cty(t):
    k = t['k']
    if k == 'plain':
        return '(KPlain %s)' % cstr(t['tok'])
    if k == 'ref':
        return '(KRef None %s)' % cstr(t['name'])
    if k in ('enum', 'nested'):
        return 'KNested'
    if k == 'of':
        return '(KOf %s %s %s false)' % (cbool(t['set']), cty(t['elem']), cbool(t['elem_plain']))
    raise ValueError(k)


def mentions_top(t):
    k = t['k']
    if k == 'ref':
        return bool(t.get('rec'))
    if k == 'nested':
        return any(mentions_top(x['ty']) if 'group' not in x else any(mentions_top(y['ty']) for y in x['group'])
                   for x in t['c']['root'] + t['c']['adds'])
    # a cycle through SEQUENCE OF / SET OF needs no Box and is not marked
    return False


def member_term(m, depth):
    # the linker marks the direct components of the assigned type whose type leads back to it (mark_recursive): one Box per cycle
    if 'group' in m:
        rec = depth == 0 and any(mentions_top(y['ty']) for y in m['group'])
        return '(mkmember %s KNested Required %s)' % (cstr('ext_group_' + m['group'][0]['name']), cbool(rec))
    opt = {'OPTIONAL': 'Optional', 'DEFAULT': 'Default', None: 'Required'}[m['opt']]
    rec = depth == 0 and (mentions_top(m['ty']) or bool(m.get('_peer')))
    return '(mkmember %s %s %s %s)' % (cstr(m['name']), cty(m['ty']), opt, cbool(rec))


def observed_fields(item, is_choice):
    out = []
    if is_choice:
        for v in item.get('variants', []):
            attrs = ' '.join(v.get('attrs', []))
            ext = 2 if 'extension_addition_group' in attrs else (1 if 'extension_addition' in attrs else 0)
            ty = v['fields'][0]['ty'] if v.get('fields') else ''
            out.append((v['name'], ty, None, ext))
    else:
        for f in item.get('fields', []):
            attrs = ' '.join(f.get('attrs', []))
            ext = 2 if 'extension_addition_group' in attrs else (1 if 'extension_addition' in attrs else 0)
            m = re.search(r'default="([^"]+)"', attrs)
            out.append((f['name'], f['ty'], m.group(1) if m else None, ext))
    return out


def field_term(f):
    return '(mkfield %s %s %s %s)' % (cstr(f[0]), cstr(f[1]), copt(f[2], cstr), cn(f[3]))


def collect(ck, c, parent, items, terms, idx, problems, src, depth=0):
    """compare the constructed type `c` generated under the Rust name `parent`, recursively for its in-place types"""
    it = items.get(parent)
    is_choice = c['kind'] == 'CHOICE'
    if it is None or it['kind'] != ('enum' if is_choice else 'struct'):
        problems.append('no %s named %s for a %s' % ('enum' if is_choice else 'struct', parent, c['kind']))
        return
    attrs = ' '.join(it.get('attrs', []))
    is_set_marked = bool(re.search(r'rasn\(([^)]*,)?set(,|\))', attrs))
    if (c['kind'] == 'SET') != is_set_marked:
        problems.append('%s is %smarked as a set but is a %s' % (parent, '' if is_set_marked else 'not ', c['kind']))
    obs = observed_fields(it, is_choice)
    terms.append('(%s, %s, %s, %s, %s, %s)' % (cbool(is_choice), cstr(parent),
                                               clist([member_term(m, depth) for m in c['root']]) if c['root'] else '(@nil member)', cbool(c['marker']),
                                               clist([member_term(m, depth) for m in c['adds']]) if c['adds'] else '(@nil member)',
                                               clist([field_term(f) for f in obs]) if obs else '(@nil field)'))
    idx.append((src, parent))
    for m in c['root'] + c['adds']:
        if 'group' in m:
            inner = parent + title('ext_group_' + m['group'][0]['name'])
            collect(ck, {'kind': 'SEQUENCE', 'root': m['group'], 'marker': False, 'adds': []}, inner, items, terms, idx, problems, src, depth + 1)
            continue
        t = m['ty']
        # element types written in place inside SEQUENCE OF are reached through the delegate type: only the direct ones are followed
        if t['k'] == 'nested':
            collect(ck, t['c'], parent + title(m['name']), items, terms, idx, problems, src, depth + 1)
        elif t['k'] == 'enum':
            e = items.get(parent + title(m['name']))
            if e is None or e['kind'] != 'enum' or [v['name'] for v in e['variants']] != t['names']:
                problems.append('in-place ENUMERATED of %s.%s is not emitted as %s with its enumerals' % (parent, m['name'], parent + title(m['name'])))
        if m['opt'] == 'DEFAULT':
            fn = '%s_%s_default' % (snake(parent), snake(m['name']))
            if fn not in items:
                problems.append('no default function %s' % fn)


def by_value_cycle(mod):
    """a cycle of by-value containment among the structs / enums of the module, or None"""
    from props.C01 import names_by_value
    graph = {}
    for it in mod['items']:
        if it.get('kind') == 'struct':
            tys = [f['ty'] for f in it.get('fields', [])]
        elif it.get('kind') == 'enum':
            tys = [f['ty'] for v in it.get('variants', []) for f in v.get('fields', [])]
        else:
            continue
        graph[it['name']] = [n for t in tys for n in names_by_value(t)]
    state, stack = {}, []

    def visit(n):
        if n not in graph:
            return None
        if state.get(n) == 1:
            return stack[stack.index(n):] + [n]
        if state.get(n) == 2:
            return None
        state[n] = 1
        stack.append(n)
        for m in graph[n]:
            r = visit(m)
            if r:
                return r
        stack.pop()
        state[n] = 2
        return None
    for n in list(graph):
        r = visit(n)
        if r:
            return r
    return None


def snake(s):
    """to_rust_snake_case (Model/Names.v snake, without the keyword escape)"""
    s = s.replace('-', '_')
    out = []
    for i, c in enumerate(s):
        if c.islower() or c == '_' or c.isdigit():
            out.append(c)
            if c != '_' and i + 1 < len(s) and s[i + 1].isupper():
                out.append('_')
        else:
            out.append(c.lower())
    return ''.join(out)


def run(ck):
    ck.coverage['rule'] = ('random SEQUENCE / SET / CHOICE type assignments with 0..12 root components and 0..3 additions (plain or extension '
                           'groups) after an optional marker; component types: 20 built-in forms, references, recursion to the enclosing type, '
                           'in-place ENUMERATED / SEQUENCE / SET / CHOICE to depth 4, SEQUENCE OF / SET OF of any of these; OPTIONAL / DEFAULT / '
                           'tags; all module tagging and extensibility defaults; the projected struct fields / enum variants (name, type, default '
                           'function, extension annotation) compared with the model inside Coq for the type and every in-place type below it; '
                           'SET markers, default functions and in-place ENUMERATEDs checked on the projection')
    ck.assumptions += ['the Rust type token of constrained INTEGER components is taken from a fixed table (decided by C06)',
                       'COMPONENTS OF is C09\'s subject; here: the root / addition status of the own and the copied components next to a marker (proved over the linker model, C02_copied_components_join_root, and compared end to end); that the copied components stand behind the own root components is a known finding']
    ck.prove('Props/C02.v', ['RasnV.Props.C02'], extra=['Corr/C02.vo'])
    n = 200 if ck.tier == 'quick' else 6000
    cases = []
    for k in range(n):
        top = 'Top%d' % k
        g = Gen(ck, k, top)
        c = g.constructed(0)
        header = ck.rng.choice(['AUTOMATIC TAGS', 'EXPLICIT TAGS', 'IMPLICIT TAGS', '']) + (' EXTENSIBILITY IMPLIED' if ck.rng.random() < 0.15 else '')
        toptag = ck.rng.choice(['', '', '[APPLICATION %d] ' % ck.rng.randint(0, 30), '[%d] ' % ck.rng.randint(0, 30), '[PRIVATE 2] EXPLICIT '])
        if c['kind'] == 'CHOICE' and 'EXPLICIT' not in toptag:
            toptag = ''
        peer = ''
        if ck.rng.random() < 0.3 and c['kind'] != 'CHOICE':
            # a cycle through a second assignment: Top -> Peer -> Top
            c['root'].append({'name': 'peer%d' % k, 'ty': {'k': 'ref', 'name': 'Peer%d' % k}, 'opt': 'OPTIONAL', '_peer': True})
            peer = 'Peer%d ::= %s { back %s, weight INTEGER }\n' % (k, ck.rng.choice(['SEQUENCE', 'SET']), top)
            g.tags.add('mutual-recursion')
        src = 'Mc%d DEFINITIONS %s ::= BEGIN\nLeaf%d ::= INTEGER\n%s%s ::= %s%s\nEND\n' % (k, header, k, peer, top, toptag, cons_asn(c))
        cases.append({'op': 'compile', 'sources': [src], '_c': c, '_top': top, '_tags': sorted(g.tags), '_implied': 'IMPLIED' in header})
    ck.sample({'asn1': cases[0]['sources'][0][:1200]})
    res = run_harness(cases)
    terms, idx = [], []
    for c, r in zip(cases, res):
        src = c['sources'][0]
        ck.note_case(src)
        for t in c['_tags']:
            ck.count('with:' + t)
        ck.count(c['_c']['kind'])
        if 'panic' in r or 'crash' in r:
            ck.count('panic-or-crash')
            continue
        if not r.get('ok') or 'items' not in r:
            ck.violation('impl-violation', src, impl={x: y for x, y in r.items() if x not in ('generated', 'items')},
                         why='a constructed type of the supported notation is rejected, or its bindings do not parse')
            continue
        if r.get('warnings'):
            ck.count('with-warnings')
            continue
        mod = [m for m in r['items'] if m.get('kind') == 'mod'][0]
        items = {}
        dup = []
        for it in mod['items']:
            nm = it.get('name')
            if nm and it['kind'] in ('struct', 'enum', 'fn', 'const', 'static'):
                if nm in items:
                    dup.append(nm)
                items[nm] = it
        problems = []
        if dup:
            problems.append('items declared twice: %s' % dup)
        cc = c['_c']
        if c['_implied'] and not cc['marker']:
            # EXTENSIBILITY IMPLIED adds no component; the extension annotation of fields is unaffected
            pass
        collect(ck, cc, c['_top'], items, terms, idx, problems, src)
        cyc = by_value_cycle(mod)
        if cyc:
            problems.append('recursive components are not boxed: %s contain each other by value' % ' -> '.join(cyc))
        if problems:
            ck.violation('impl-violation', src, problems=problems[:6], why=problems[0])
    for j in coq_eval_bad('C02', REQ, 'bool * str * list member * bool * list member * list field', 'corr', terms, label='fields'):
        src, parent = idx[j]
        ck.violation('impl-violation', src, item=parent, term=terms[j][-700:],
                     why='the fields / variants of %s are not: one per component, in source order, with the component\'s name, written type, '
                         'Option / default / extension marking' % parent)
    ck.coverage['traces_validated_against_impl'] = len(terms)
    components_of_with_marker(ck)


KNOWN_COPIED_ORDER = 'C02-copied-components-behind-root'


KNOWN_AFTER_MARKER = 'C02-components-of-after-marker'


def components_of_with_marker(ck):
    """COMPONENTS OF next to an extension marker -- one or two notations, in the root or after the marker, one or two levels deep:
    the fields of the including types and their extension_addition flags against the linker model (Expansion.link_marked, inside
    Coq) and against the meaning: own root components and components copied for a notation in the root are no additions, own
    additions and components copied for a notation after the marker are; order = every notation replaced in place"""
    rng = ck.rng
    n = 80 if ck.tier == 'quick' else 1200
    cases, meta = [], []
    for k in range(n):
        ty = lambda nm: '%s %s' % (nm, rng.choice(['BOOLEAN', 'NULL', 'INTEGER', 'IA5String']))
        kind = rng.choice(['SEQUENCE', 'SEQUENCE', 'SET'])

        def level(prefix, lo):
            root = ['%s%d' % (prefix, i) for i in range(rng.randint(lo, 3))]
            adds = ['%sa%d' % (prefix, i) for i in range(rng.choice([0, 0, 1, 2]))]
            return root, adds, bool(adds) or rng.random() < 0.4

        def text(root, adds, mark, notes):
            """notes: list of (where, pos, ref), positions referring to the list before any insertion"""
            r_items = [[ty(m)] for m in root] + [[]]
            a_items = [[ty(m)] for m in adds] + [[]]
            for where, pos, ref in notes:
                (r_items if where == 'root' else a_items)[pos].insert(0, 'COMPONENTS OF %s' % ref)
            # a notation inserted at pos stands in front of the component at pos (several at one pos keep their order of insertion reversed)
            flat = lambda items: [x for cell in items for x in cell]
            return ', '.join(flat(r_items) + (['...'] if mark else []) + flat(a_items))

        yroot, yadds, ymark = level('y', 1)
        wroot, wadds, wmark = level('w', 1)
        deep = rng.random() < 0.4
        xroot, xadds, xmark = level('x', 1)
        xpos = rng.randint(0, len(xroot))
        own_root, own_adds, marker = level('r', 0)
        # names chosen so that each including type is processed after (Aa, Mm) or before (Zz, Xx) the one it includes in the pass
        incl = rng.choice(['Aa', 'Zz'])
        mid = rng.choice(['Mm', 'Xx'])
        inner = rng.choice(['Bb', 'Yy'])
        other = rng.choice(['Cc', 'Ww'])
        mid_copied = yroot if deep else []
        # the notations of the including type: the first refers to mid, an optional second one to `other`
        notes = []
        where1 = 'adds' if marker and rng.random() < 0.3 else 'root'
        notes.append((where1, rng.randint(0, len(own_adds if where1 == 'adds' else own_root)), mid, xroot + mid_copied,
                      xroot[:xpos] + mid_copied + xroot[xpos:]))
        two = rng.random() < 0.4
        if two:
            where2 = 'adds' if marker and rng.random() < 0.3 else 'root'
            notes.append((where2, rng.randint(0, len(own_adds if where2 == 'adds' else own_root)), other, wroot, wroot))
        lines = ['%s ::= %s { %s }' % (mid, kind, text(xroot, xadds, xmark, [('root', xpos, inner)] if deep else [])),
                 '%s ::= %s { %s }' % (incl, kind, text(own_root, own_adds, marker, [(w, p_, r_) for w, p_, r_, _, _ in notes]))]
        if deep:
            lines.append('%s ::= %s { %s }' % (inner, kind, text(yroot, yadds, ymark, [])))
        if two:
            lines.append('%s ::= %s { %s }' % (other, kind, text(wroot, wadds, wmark, [])))
        rng.shuffle(lines)
        src = 'Mk%d DEFINITIONS AUTOMATIC TAGS ::= BEGIN\n%s\nEND\n' % (k, '\n'.join(lines))
        cases.append({'op': 'compile', 'sources': [src]})

        def in_place(root, adds, notes_):
            """the expansion: every notation replaced by the components it stands for, in writing order"""
            r_items = [[m] for m in root] + [[]]
            a_items = [[m] for m in adds] + [[]]
            for where, pos, _, _, placed in notes_:
                cell = (r_items if where == 'root' else a_items)[pos]
                cell[0:0] = placed
            flat = lambda items: [x for cell in items for x in cell]
            return flat(r_items), flat(a_items)

        def writing_order(notes_):
            """the order in which the parser collects the notations: root list first, by position (a later insertion at the same
            position stands in front), then the additions"""
            keyed = []
            for idx_, nt in enumerate(notes_):
                keyed.append(((0 if nt[0] == 'root' else 1), nt[1], -idx_, nt))
            return [nt for _, _, _, nt in sorted(keyed, key=lambda t: t[:3])]

        ordered = writing_order(notes)
        copied_all = [m for nt in ordered for m in nt[3]]
        exp_root, exp_adds = in_place(own_root, own_adds, notes)
        subjects = [(incl, own_root, own_adds, copied_all, marker, exp_root, exp_adds)]
        if deep:
            subjects.append((mid, xroot, xadds, yroot, xmark, xroot[:xpos] + yroot + xroot[xpos:], xadds))
        meta.append((src, subjects))
    res = run_harness(cases)
    terms, idx = [], []
    for (src, subjects), r in zip(meta, res):
        ck.note_case(src)
        ck.count('components-of-with-marker')
        if 'panic' in r or 'crash' in r:
            ck.violation('impl-violation', src, impl={x: y for x, y in r.items() if x not in ('generated', 'items')}, why='compiler crashed')
            continue
        if not r.get('ok') or 'items' not in r or r.get('warnings'):
            ck.violation('impl-violation', src, why='a module using COMPONENTS OF next to an extension marker is rejected or warned about',
                         impl={x: y for x, y in r.items() if x not in ('generated', 'items')})
            continue
        mod = [m for m in r['items'] if m.get('kind') == 'mod'][0]
        for name, own_root, own_adds, copied, marker, exp_root, exp_adds in subjects:
            it = [x for x in mod['items'] if x.get('name') == name and x.get('kind') == 'struct']
            if not it:
                ck.violation('impl-violation', src, why='no struct for %s' % name)
                continue
            obs = [(f['name'], any('extension_addition' in a for a in f['attrs'])) for f in it[0]['fields']]
            terms.append('(%s, %s, %s, %s, %s)' % (clist(own_root, cstr), clist(own_adds, cstr), clist(copied, cstr), cbool(marker),
                                                  clist(obs, lambda p: '(%s, %s)' % (cstr(p[0]), cbool(p[1])))))
            idx.append((src, name))
            # the meaning of the notation
            want = [(m, False) for m in exp_root] + [(m, True) for m in exp_adds]
            if obs == want:
                continue
            copied_late = [m for m in exp_adds if m not in own_adds]        # copied for a notation written after the marker
            # the two known departures, exactly: the copied components stand behind the own root components, in the order of the
            # notations; those copied for a notation after the marker are not marked as additions
            known_shape = [(m, False) for m in own_root + copied] + [(m, True) for m in own_adds]
            if obs == known_shape and dict(obs) == dict(want):
                slug = KNOWN_COPIED_ORDER
            elif obs == known_shape and all(dict(obs)[m] == dict(want)[m] for m in dict(want) if m not in copied_late):
                slug = KNOWN_AFTER_MARKER
            else:
                slug = None
            if slug and ck.is_known(slug):
                ck.known_hit(slug, {'asn1': src, 'type': name, 'fields': obs, 'expansion': want})
            else:
                ck.violation('impl-violation', src, type=name, fields=obs, expansion=want,
                             why='the fields of %s, their order or their extension_addition marking are not those of its expansion (and not '
                                 'one of the two known departures: copied components behind the own root components; components copied for '
                                 'a notation after the marker unmarked)' % name)
    for j in coq_eval_bad('C02', REQ, 'list str * list str * list str * bool * list (str * bool)', 'corr_link', terms, label='link'):
        ck.broken.append({'kind': 'correspondence', 'item': 'COMPONENTS OF next to an extension marker (Expansion.link_marked)',
                          'detail': 'model and implementation disagree on %s in %s (%s)' % (idx[j][1], idx[j][0], terms[j][-300:])})
    ck.coverage['traces_validated_against_impl'] = ck.coverage.get('traces_validated_against_impl', 0) + len(terms)


def replay(ck, data):
    ck.prove('Props/C02.v', ['RasnV.Props.C02'], extra=['Corr/C02.vo'])
    terms = [v['term'] for v in data.get('violations', []) if v.get('term')]
    # a replayed term carries the observation of the failing run: re-observe instead
    for v in data.get('violations', []):
        if isinstance(v.get('case'), str):
            r = run_harness([{'op': 'compile', 'sources': [v['case']]}])[0]
            ck.note_case(v['case'])
            if not r.get('ok') or v.get('item') or v.get('problems'):
                ck.violation('impl-violation', v['case'], why='replayed: ' + (v.get('why') or ''))
