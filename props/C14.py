"""C14 -- ENUMERATED items get the numbers X.680 §20 assigns."""
import itertools
import re
from common import cz, cn, cbool, copt, clist, cstr, run_harness, coq_eval_bad_multi

REQ = ['RasnV.Corr.C14']
CHOICES = [None, -1, 0, 1, 2, 5]
CASE_T = 'case'


NAME_POOL = ['for', 'in-order', 'loop', 'match', 'self', 'a-b', 'type', 'aB', 'x1', 'Self-x', 'fn', 'r-fn']


def names_for(seed, n):
    """deterministic distinct identifiers for the n items of an enumeration"""
    if seed is None:
        return ['e%d' % i for i in range(n)]
    import random
    r = random.Random(seed)
    pool = NAME_POOL[:]
    r.shuffle(pool)
    return [(pool[i] if i < len(pool) and r.random() < 0.7 else 'e%d' % i) for i in range(n)]


def enum_text(root, marker, adds, seed=None):
    nm = names_for(seed, len(root) + len(adds))

    def it(i, x):
        return nm[i] if x is None else '%s(%d)' % (nm[i], x)
    parts = [it(i, x) for i, x in enumerate(root)]
    if marker:
        parts.append('...')
    parts += [it(len(root) + i, x) for i, x in enumerate(adds)]
    return 'ENUMERATED { ' + ', '.join(parts) + ' }'


def module(enums):
    body = '\n'.join('E%d ::= %s' % (i, enum_text(*e)) for i, e in enumerate(enums))
    return 'M DEFINITIONS AUTOMATIC TAGS ::= BEGIN\n' + body + '\nEND\n'


def gen_enums(ck):
    out = []
    if ck.tier == 'quick':
        rmax, amax, nrand = 3, 2, 3000
    else:
        rmax, amax, nrand = 4, 2, 60000
        ck.coverage['exhaustive'] = False
    for r in range(1, rmax + 1):
        for root in itertools.product(CHOICES, repeat=r):
            out.append((root, False, ()))
            for a in range(0, amax + 1):
                for adds in itertools.product(CHOICES, repeat=a):
                    out.append((root, True, adds))
    big = [None, None, None, -1, 0, 1, 2, 5, 7, 100, -128, 2 ** 40, -(2 ** 70)]
    for _ in range(nrand):
        r = ck.rng.randint(1, 8)
        a = ck.rng.randint(0, 5)
        pool = CHOICES if ck.rng.random() < 0.6 else big
        root = tuple(ck.rng.choice(pool) for _ in range(r))
        marker = a > 0 or ck.rng.random() < 0.5
        adds = tuple(ck.rng.choice(pool) for _ in range(a))
        out.append((root, marker, adds, ck.rng.randint(1, 10 ** 9)))
    return out


def items_term(names, xs):
    return clist(['(%s, %s)' % (cstr(names[i]), copt(x, cz)) for i, x in enumerate(xs)]) if xs else '(@nil item)'


def judge(ck, cases, results):
    terms, idx = [], []
    for ci, (c, r) in enumerate(zip(cases, results)):
        enums = c['_m']
        if 'panic' in r or 'crash' in r or not r.get('ok') or 'items' not in r:
            # find the culprit individually
            if len(enums) > 1:
                sub = [{'op': 'compile', 'sources': [module([e])], '_m': [e]} for e in enums]
                judge(ck, sub, run_harness(sub))
            else:
                ck.note_case(repr(enums[0]))
                ck.violation('impl-violation', c['sources'][0], impl={k: v for k, v in r.items() if k != 'generated'},
                             why='legal ENUMERATED rejected / crashed / unparsable output')
            continue
        items = {it['name']: it for m in r['items'] for it in m.get('items', []) if it.get('kind') == 'enum'}
        for ei, e in enumerate(enums):
            root, marker, adds = e[:3]
            nm = names_for(e[3] if len(e) > 3 else None, len(root) + len(adds))
            ck.note_case(repr(e), nontrivial=any(x is not None for x in tuple(root) + tuple(adds)) or marker)
            ck.count('root=%d' % len(root)); ck.count('adds=%d' % len(adds))
            en = items.get('E%d' % ei)
            if en is None:
                ck.violation('impl-violation', module([e]), why='no enum generated', warnings=r.get('warnings'))
                continue
            obs = []
            first_ext = None
            bad = False
            for vi, v in enumerate(en['variants']):
                try:
                    num = int(v['disc'].replace(' ', ''))
                except Exception:
                    bad = True
                    break
                name = v['name']
                for a in v['attrs']:
                    m = re.search(r'identifier="([^"]*)"', a)
                    if m:
                        name = m.group(1)
                    if 'extension_addition' in a and first_ext is None:
                        first_ext = vi
                obs.append((name, num))
            if bad:
                ck.violation('impl-violation', module([e]), why='variant without integer discriminant')
                continue
            ne = any(a == 'non_exhaustive' for a in en['attrs'])
            if marker:
                ext = len(root) if (first_ext is None and ne and len(obs) == len(root)) else first_ext
                if not ne:
                    ext = None
            else:
                ext = first_ext if first_ext is not None else (len(obs) if ne else None)
            terms.append('(%s, %s, %s, %s, %s)' % (
                items_term(nm, root), cbool(marker), items_term(nm[len(root):], adds),
                clist(['(%s, %s)' % (cstr(n), cz(z)) for n, z in obs]) if obs else '(@nil (str * Z))',
                copt(ext, cn)))
            idx.append((ci, ei))
    spec_bad = set()
    bad_spec, bad_corr = coq_eval_bad_multi('C14', REQ, CASE_T, ['spec', 'corr'], terms)
    for j in bad_spec:
        ci, ei = idx[j]
        e = cases[ci]['_m'][ei]
        spec_bad.add(j)
        ck.violation('impl-violation', module([e]), term=terms[j], enum=list(e),
                     why='observed numbering violates X.680 §20 as worded by C14 (names in order, explicit kept, root '
                         'successive from 0 skipping used, additions fresh, all distinct, first-addition index)')
    for j in bad_corr:
        if j in spec_bad:
            continue
        ci, ei = idx[j]
        ck.broken.append({'kind': 'correspondence', 'item': 'H3/H11 enumerated numbering',
                          'detail': 'model and implementation disagree on %s (term %s)' % (module([cases[ci]['_m'][ei]]), terms[j])})
    ck.coverage['traces_validated_against_impl'] = ck.coverage.get('traces_validated_against_impl', 0) + len(terms)


def run(ck):
    ck.coverage['rule'] = ('every enumeration with <=3 (quick) / <=4 (thorough) root items and <=2 additions over {id-only,-1,0,1,2,5}, '
                           'plus seeded random enumerations with up to 8 root items / 5 additions incl. large and negative numbers; '
                           'each compiled by the real compiler (20 per module) and its discriminants read with syn; non-trivial = has '
                           'an explicit number or a marker; distinct by (root, marker, additions)')
    ck.assumptions += ['numbers stay away from i128::MAX (saturation guards not modelled)',
                       'variant names eN are not mangled']
    ck.prove('Props/C14.v', ['RasnV.Props.C14'], extra=['Corr/C14.vo'])
    enums = gen_enums(ck)
    cases = []
    for i in range(0, len(enums), 20):
        chunk = enums[i:i + 20]
        cases.append({'op': 'compile', 'sources': [module(chunk)], '_m': chunk})
    ck.sample({'asn1': cases[len(cases) // 2]['sources'][0][:600]})
    ck.sample({'asn1': module([enums[-1]])})
    judge(ck, cases, run_harness(cases))


def replay(ck, data):
    ck.prove('Props/C14.v', ['RasnV.Props.C14'], extra=['Corr/C14.vo'])
    cases = []
    for v in data.get('violations', []):
        if v.get('enum'):
            e = v['enum']
            e = (tuple(e[0]), bool(e[1]), tuple(e[2])) + ((e[3],) if len(e) > 3 else ())
            cases.append({'op': 'compile', 'sources': [module([e])], '_m': [e]})
    judge(ck, cases, run_harness(cases))
