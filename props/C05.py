"""C05 -- extension markers, additions and addition groups are preserved."""
import re
from common import cz, cn, cbool, copt, clist, cstr, run_harness, coq_eval_bad_multi

REQ = ['RasnV.Corr.C05']
TYPES = ['INTEGER', 'BOOLEAN', 'NULL', 'OCTET STRING', 'SEQUENCE { ix INTEGER }', 'CHOICE { ca NULL, cb BOOLEAN }',
         'ENUMERATED { ea, eb }', 'SEQUENCE OF INTEGER']
OPTS = ['Required', 'Optional', 'Default']
DEFAULTS = {'INTEGER': '5', 'BOOLEAN': 'TRUE', 'NULL': 'NULL', 'OCTET STRING': "'AB'H"}
SIMPLE = ['INTEGER', 'BOOLEAN', 'NULL', 'OCTET STRING']


def rand_member(ck, i, allow_opt=True):
    name = ck.rng.choice(['m%d' % i, 'mem-b%d' % i, 'xY%d' % i])
    ty = ck.rng.choice(TYPES)
    opt = ck.rng.choice(OPTS) if allow_opt else 'Required'
    if ty not in SIMPLE and opt == 'Default':
        opt = 'Required'
    return {'name': name, 'ty': ty, 'opt': opt}


def t_member(m):
    s = '%s %s' % (m['name'], m['ty'])
    if m['opt'] == 'Optional':
        s += ' OPTIONAL'
    elif m['opt'] == 'Default':
        s += ' DEFAULT %s' % DEFAULTS[m['ty']]
    return s


def gen_seq(ck, kind):
    nroot = ck.rng.randint(0, 4)
    marker = ck.rng.random() < 0.75
    nadds = ck.rng.randint(0, 6) if marker else 0
    i = 0
    root, adds = [], []
    for _ in range(nroot):
        root.append(rand_member(ck, i)); i += 1
    ngroups = 0
    for _ in range(nadds):
        if kind == 'SEQUENCE' and ngroups < 3 and ck.rng.random() < 0.35:
            g = []
            for _ in range(ck.rng.randint(1, 3)):
                g.append(rand_member(ck, i)); i += 1
            adds.append({'group': g, 'version': ck.rng.choice([None, None, 2, 7])})
            ngroups += 1
        else:
            adds.append({'member': rand_member(ck, i)}); i += 1
    if nroot == 0 and not adds and not marker:
        root.append(rand_member(ck, i))
    return root, marker, adds


def t_seq(kind, root, marker, adds, trailing):
    parts = [t_member(m) for m in root]
    if marker:
        parts.append('...')
    for a in adds:
        if 'member' in a:
            parts.append(t_member(a['member']))
        else:
            v = '%d: ' % a['version'] if a['version'] is not None else ''
            parts.append('[[ %s%s ]]' % (v, ', '.join(t_member(m) for m in a['group'])))
    body = ', '.join(parts)
    if trailing and marker and not adds:
        body += ','
    return '%s { %s }' % (kind, body)


def gen_choice(ck):
    nroot = ck.rng.randint(1, 4)
    marker = ck.rng.random() < 0.75
    nadds = ck.rng.randint(0, 6) if marker else 0
    i = 0
    root, adds = [], []
    for _ in range(nroot):
        root.append(rand_member(ck, i, False)); i += 1
    ngroups = 0
    for _ in range(nadds):
        if ngroups < 3 and ck.rng.random() < 0.3:
            g = []
            for _ in range(ck.rng.randint(1, 3)):
                g.append(rand_member(ck, i, False)); i += 1
            adds.append({'group': g}); ngroups += 1
        else:
            adds.append({'member': rand_member(ck, i, False)}); i += 1
    return root, marker, adds


def t_choice(root, marker, adds):
    parts = ['%s %s' % (m['name'], m['ty']) for m in root]
    if marker:
        parts.append('...')
    for a in adds:
        if 'member' in a:
            parts.append('%s %s' % (a['member']['name'], a['member']['ty']))
        else:
            parts.append('[[ %s ]]' % ', '.join('%s %s' % (m['name'], m['ty']) for m in a['group']))
    return 'CHOICE { %s }' % ', '.join(parts)


def c_member(m):
    return '{| mname := %s; mopt := %s |}' % (cstr(m['name']), m['opt'])


def c_addition(a):
    if 'member' in a:
        return '(AMember %s)' % c_member(a['member'])
    g = a['group']
    return '(AGroup %s %s %s)' % (copt(a.get('version'), cn), c_member(g[0]),
                                   clist([c_member(m) for m in g[1:]]) if len(g) > 1 else '(@nil member)')


def c_choice_addition(a):
    if 'member' in a:
        return '(CAlt %s)' % c_member(a['member'])
    g = a['group']
    return '(CGroup %s %s)' % (c_member(g[0]), clist([c_member(m) for m in g[1:]]) if len(g) > 1 else '(@nil member)')


def ident_of(name, attrs):
    for a in attrs:
        m = re.search(r'identifier="([^"]*)"', a)
        if m:
            return m.group(1)
    return name


def ann_of(attrs):
    for a in attrs:
        if re.search(r'\bextension_addition_group\b', a):
            return 'ExtGroup'
    for a in attrs:
        if re.search(r'\bextension_addition\b', a):
            return 'ExtAddition'
    return 'NoAnn'


def find_item(mod, kind, name):
    for it in mod['items']:
        if it.get('kind') == kind and it.get('name') == name:
            return it
    return None


def obs_struct(mod, st):
    """-> list of coq field terms"""
    out = []
    for f in st['fields']:
        ann = ann_of(f['attrs'])
        name = f['name']
        opt = f['ty'].startswith('Option<')
        inner = 'None'
        if ann == 'ExtGroup' or name.startswith('ext_group_'):
            # the annotation of a group member is `identifier = "SEQUENCE"`; the member name is the Rust one
            m = re.match(r'Option<(\w+)>$', f['ty'])
            g = find_item(mod, 'struct', m.group(1)) if m else None
            if g is not None:
                inner = '(Some %s)' % clist(['(%s, %s)' % (cstr(ident_of(x['name'], x['attrs'])), cbool(x['ty'].startswith('Option<')))
                                              for x in g['fields']])
            # ext_group_<first member name as written>: recover the written name from the group's first field
            if g is not None and g['fields']:
                name = 'ext_group_' + ident_of(g['fields'][0]['name'], g['fields'][0]['attrs'])
        else:
            name = ident_of(f['name'], f['attrs'])
        out.append('{| fname := %s; foption := %s; fann := %s; finner := %s |}' % (cstr(name), cbool(opt), ann, inner))
    return out


def judge(ck, cases, results):
    sterms, sidx, cterms, cidx = [], [], [], []
    for i, (c, r) in enumerate(zip(cases, results)):
        ck.note_case(c['sources'][0])
        ck.count(c['_kind'])
        if 'panic' in r or 'crash' in r:
            ck.violation('impl-violation', c['sources'][0], impl=r, why='compiler crashed')
            continue
        if not r.get('ok') or 'items' not in r:
            ck.violation('impl-violation', c['sources'][0], impl={k: v for k, v in r.items() if k != 'generated'},
                         why='legal extensible type rejected or generated code unparsable')
            continue
        mod = [m for m in r['items'] if m.get('kind') == 'mod' and m['name'] == 'm'][0]
        implied = c['_implied']
        tname = 'OuterInner' if c['_nested'] else 'Tt'
        if c['_kind'] in ('SEQUENCE', 'SET'):
            st = find_item(mod, 'struct', tname)
            if st is None:
                ck.violation('impl-violation', c['sources'][0], why='type not generated', warnings=r.get('warnings'))
                continue
            root, marker, adds = c['_m']
            ne = any(a == 'non_exhaustive' for a in st['attrs'])
            sterms.append('(%s, %s, %s, %s, %s, %s)' % (
                clist([c_member(m) for m in root]) if root else '(@nil member)', cbool(marker),
                clist([c_addition(a) for a in adds]) if adds else '(@nil addition)', cbool(implied),
                clist(obs_struct(mod, st)) if st['fields'] else '(@nil field)', cbool(ne)))
            sidx.append(i)
        else:
            en = find_item(mod, 'enum', tname)
            if en is None:
                ck.violation('impl-violation', c['sources'][0], why='type not generated', warnings=r.get('warnings'))
                continue
            root, marker, adds = c['_m']
            ne = any(a == 'non_exhaustive' for a in en['attrs'])
            obs = ['(%s, %s)' % (cstr(ident_of(v['name'], v['attrs'])), ann_of(v['attrs'])) for v in en['variants']]
            cterms.append('(%s, %s, %s, %s, %s, %s)' % (
                clist([c_member(m) for m in root]), cbool(marker),
                clist([c_choice_addition(a) for a in adds]) if adds else '(@nil choice_addition)', cbool(implied),
                clist(obs) if obs else '(@nil (str * ext_annotation))', cbool(ne)))
            cidx.append(i)
    bs, bc = coq_eval_bad_multi('C05', REQ, 'list member * bool * list addition * bool * list field * bool', ['spec_seq', 'corr_seq'], sterms, label='seq')
    for j in bs:
        ck.violation('impl-violation', cases[sidx[j]]['sources'][0], term=sterms[j],
                     why='generated members / extension annotations / groups / non_exhaustive do not match the source')
    for j in set(bc) - set(bs):
        ck.broken.append({'kind': 'correspondence', 'item': 'H9/H11 SEQUENCE/SET extension model',
                          'detail': 'model and implementation disagree on %s (%s)' % (cases[sidx[j]]['sources'][0], sterms[j])})
    bs, bc = coq_eval_bad_multi('C05', REQ, 'list member * bool * list choice_addition * bool * list (str * ext_annotation) * bool',
                                ['spec_choice', 'corr_choice'], cterms, label='choice')
    for j in bs:
        ck.violation('impl-violation', cases[cidx[j]]['sources'][0], term=cterms[j],
                     why='generated alternatives / extension annotations / non_exhaustive do not match the source')
    for j in set(bc) - set(bs):
        ck.broken.append({'kind': 'correspondence', 'item': 'H9/H11 CHOICE extension model',
                          'detail': 'model and implementation disagree on %s (%s)' % (cases[cidx[j]]['sources'][0], cterms[j])})
    ck.coverage['traces_validated_against_impl'] = len(sterms) + len(cterms)


def make_case(ck, kind):
    implied = ck.rng.random() < 0.3
    nested = ck.rng.random() < 0.3
    if kind in ('SEQUENCE', 'SET'):
        root, marker, adds = gen_seq(ck, kind)
        text = t_seq(kind, root, marker, adds, ck.rng.random() < 0.5)
    else:
        root, marker, adds = gen_choice(ck)
        text = t_choice(root, marker, adds)
    hdr = 'M DEFINITIONS AUTOMATIC TAGS%s ::= BEGIN\n' % (' EXTENSIBILITY IMPLIED' if implied else '')
    if ck.rng.random() < 0.25:
        # another module with the opposite extensibility default, generated before or after: nothing may leak
        oname = ck.rng.choice(['A-first', 'Z-last'])
        hdr = ('%s DEFINITIONS AUTOMATIC TAGS%s ::= BEGIN\nOo ::= SEQUENCE { x INTEGER }\nEND\n'
               % (oname, '' if implied else ' EXTENSIBILITY IMPLIED')) + hdr
    if nested:
        src = hdr + 'Outer ::= SEQUENCE { inner %s, other BOOLEAN }\nEND\n' % text
    else:
        src = hdr + 'Tt ::= %s\nEND\n' % text
    return {'op': 'compile', 'sources': [src], '_kind': kind, '_m': (root, marker, adds), '_implied': implied, '_nested': nested}


def run(ck):
    ck.coverage['rule'] = ('seeded random SEQUENCE / SET / CHOICE shapes: 0..4 root components, marker at any position incl. first and last, '
                           '0..6 additions, up to 3 [[ ]] groups with or without version numbers, trailing comma, OPTIONAL/DEFAULT members, '
                           'hyphenated and mixed-case names, top-level or nested, EXTENSIBILITY IMPLIED on/off; read back with syn; distinct by source text')
    ck.assumptions += ['ENUMERATED numbering and first-addition index are C14\'s theorems', 'COMPONENTS OF is excluded here (C09)']
    ck.prove('Props/C05.v', ['RasnV.Props.C05'], extra=['Corr/C05.vo'])
    n = 1500 if ck.tier == 'quick' else 30000
    cases = [make_case(ck, ck.rng.choice(['SEQUENCE', 'SEQUENCE', 'SET', 'CHOICE'])) for _ in range(n)]
    ck.sample({'asn1': cases[0]['sources'][0]})
    ck.sample({'asn1': cases[1]['sources'][0]})
    judge(ck, cases, run_harness(cases))


def replay(ck, data):
    ck.prove('Props/C05.v', ['RasnV.Props.C05'], extra=['Corr/C05.vo'])
    # replays re-run the stored sources for crashes/rejections; the structural comparison needs the generator metadata
    srcs = [v['case'] for v in data.get('violations', []) if isinstance(v.get('case'), str)]
    res = run_harness([{'op': 'compile', 'sources': [s]} for s in srcs])
    for s, r in zip(srcs, res):
        ck.note_case(s)
        if 'panic' in r or 'crash' in r or not r.get('ok'):
            ck.violation('impl-violation', s, impl={k: v for k, v in r.items() if k != 'generated'}, why='crashed / rejected')
