#!/usr/bin/env python3
"""merge the lines of partial regression logs (later lines win) into seeded/REGRESSION.log"""
import sys
new = {}
for f in sys.argv[1:]:
    for l in open(f):
        l = l.rstrip()
        if l and l[0] == 'C':
            new[l.split()[0]] = l
out, seen = [], set()
for l in open('/verif/seeded/REGRESSION.log'):
    l = l.rstrip('\n')
    k = l.split()[0] if l.split() else ''
    if k in new:
        out.append(new[k]); seen.add(k)
    else:
        out.append(l)
out += [new[k] for k in sorted(new) if k not in seen]
open('/verif/seeded/REGRESSION.log', 'w').write('\n'.join(out) + '\n')
