#!/bin/sh
# sweeps quick checks over seeds; evidence kept aside so that committed evidence stays seed 1
cd /verif
rm -rf .cache/evidence-keep2 && cp -r evidence .cache/evidence-keep2
for s in "$@"; do
  for p in C01 C02 C03 C04 C05 C06 C07 C08 C09 C10 C11 C12 C13 C14 C15 C16 C17 C18 C19 C20; do
    VERIF_SEED=$s ./check $p --tier quick 2>&1 | grep -E "^(VIOLATION|PASS|FAIL)"
  done
done
rm -rf evidence && mv .cache/evidence-keep2 evidence
