"""Shared machinery of the checks: building, running the implementation harness,
evaluating the Coq model on cases, auditing proofs, verdict and evidence."""
import fcntl
import hashlib
import json
import os
import random
import re
import select
import shutil
import subprocess
import sys
import time

ROOT = os.path.dirname(os.path.dirname(os.path.abspath(__file__)))
CACHE = os.path.join(ROOT, '.cache')
COQ = os.path.join(ROOT, 'coq')
REPO = '/repo'
JOBS = int(os.environ.get('VERIF_JOBS', '16'))
ENV = dict(os.environ, CARGO_NET_OFFLINE='true', CARGO_TARGET_DIR=os.path.join(CACHE, 'harness-target'))
# the one environmental input of the pipeline (rustfmt lookup) is removed
ENV_RUN = dict(os.environ, CARGO_HOME=os.path.join(CACHE, 'empty-cargo-home'), CARGO='/nonexistent/cargo',
               PATH='/usr/bin:/bin', RUST_BACKTRACE='0')

sys.path.insert(0, os.path.join(ROOT, 'tools'))


class Broken(Exception):
    """The tie between model and code (or a proof) no longer checks."""

    def __init__(self, what, detail=''):
        Exception.__init__(self, what)
        self.what = what
        self.detail = detail


class lock:
    def __init__(self, name):
        os.makedirs(CACHE, exist_ok=True)
        self.path = os.path.join(CACHE, name + '.lock')

    def __enter__(self):
        self.f = open(self.path, 'w')
        fcntl.flock(self.f, fcntl.LOCK_EX)
        return self

    def __exit__(self, *a):
        fcntl.flock(self.f, fcntl.LOCK_UN)
        self.f.close()


# ----------------------------------------------------------------------------- harness

def build_harness(profile='debug'):
    """(Re)build the harness against /repo's working tree. Returns the binary path."""
    with lock('harness'):
        os.makedirs(os.path.join(CACHE, 'empty-cargo-home'), exist_ok=True)
        src_lock = os.path.join(REPO, 'Cargo.lock')
        dst_lock = os.path.join(ROOT, 'harness', 'Cargo.lock')
        if not os.path.exists(dst_lock) or open(src_lock).read() != open(dst_lock).read():
            shutil.copy(src_lock, dst_lock)
        cmd = ['cargo', 'build', '--offline', '--quiet']
        if profile == 'release':
            cmd.append('--release')
        t0 = time.time()
        p = subprocess.run(cmd, cwd=os.path.join(ROOT, 'harness'), env=ENV, stdout=subprocess.PIPE,
                           stderr=subprocess.STDOUT, text=True, timeout=1500)
        if p.returncode != 0:
            raise Broken('harness-build', p.stdout[-4000:])
        return os.path.join(CACHE, 'harness-target', profile, 'verif-harness')


def _run_shard(binary, cases, per_case_timeout):
    """Run cases through one harness process, surviving aborts and hangs."""
    results = [None] * len(cases)
    i = 0
    while i < len(cases):
        import tempfile
        tf = tempfile.TemporaryFile(dir=os.path.join(CACHE, 'tmp'))
        tf.write(''.join(json.dumps({k: v for k, v in c.items() if not k.startswith('_')}) + '\n' for c in cases[i:]).encode())
        tf.seek(0)
        p = subprocess.Popen([binary], stdin=tf, stdout=subprocess.PIPE, stderr=subprocess.DEVNULL,
                             env=ENV_RUN, cwd=CACHE)
        tf.close()
        start = i
        buf = b''
        died = None
        while i < len(cases):
            r, _, _ = select.select([p.stdout], [], [], per_case_timeout)
            if not r:
                died = 'hang'
                break
            chunk = os.read(p.stdout.fileno(), 1 << 20)
            if not chunk:
                died = 'abort'
                break
            buf += chunk
            while b'\n' in buf and i < len(cases):
                line, buf = buf.split(b'\n', 1)
                try:
                    results[i] = json.loads(line)
                except Exception:
                    results[i] = {'harness_error': 'unparsable output'}
                i += 1
        if died:
            p.kill()
        p.wait()
        if i < len(cases) and died:
            code = p.returncode
            results[i] = {'crash': died, 'exit': code}
            i += 1
        elif i < len(cases) and not died:
            # process ended normally without answering: treat as abort
            results[i] = {'crash': 'abort', 'exit': p.returncode}
            i += 1
    return results


def run_harness(cases, profile='debug', per_case_timeout=30, jobs=None, binary=None):
    """Run all cases on the implementation; returns a list of JSON results (same order)."""
    if not cases:
        return []
    binary = binary or build_harness(profile)
    jobs = jobs or JOBS
    n = len(cases)
    k = max(1, min(jobs, (n + 7) // 8))
    shards = [list(range(j, n, k)) for j in range(k)]
    tmpdir = os.path.join(CACHE, 'tmp')
    os.makedirs(tmpdir, exist_ok=True)
    pids = []
    for si, idxs in enumerate(shards):
        out = os.path.join(tmpdir, 'shard_%d_%d.json' % (os.getpid(), si))
        pid = os.fork()
        if pid == 0:
            try:
                res = _run_shard(binary, [cases[j] for j in idxs], per_case_timeout)
                with open(out, 'w') as f:
                    json.dump(res, f)
            finally:
                os._exit(0)
        pids.append((pid, out, idxs))
    results = [None] * n
    for pid, out, idxs in pids:
        os.waitpid(pid, 0)
        try:
            with open(out) as f:
                res = json.load(f)
            os.unlink(out)
        except Exception:
            res = [{'harness_error': 'shard failed'}] * len(idxs)
        for j, r in zip(idxs, res):
            results[j] = r
    return results


# ----------------------------------------------------------------------------- Coq

def coq_makefile():
    mk = os.path.join(COQ, 'Makefile')
    vfiles = []
    for d in ('Model', 'Gen', 'Spec', 'Proofs', 'Props', 'Corr'):
        dd = os.path.join(COQ, d)
        if os.path.isdir(dd):
            vfiles += sorted(os.path.join(d, f) for f in os.listdir(dd) if f.endswith('.v'))
    proj = open(os.path.join(COQ, '_CoqProject')).read()
    listing = os.path.join(COQ, '.files')
    content = proj + '\n'.join(vfiles) + '\n'
    old = open(listing).read() if os.path.exists(listing) else None
    if old != content or not os.path.exists(mk):
        with open(listing, 'w') as f:
            f.write(content)
        subprocess.run(['coq_makefile', '-f', '.files', '-o', 'Makefile'], cwd=COQ, check=True,
                       stdout=subprocess.DEVNULL, stderr=subprocess.DEVNULL)


def coq_build(targets, timeout=1500):
    """Translate the T-items, then `make` the given .vo targets. Returns (ok, log, translator status)."""
    import translate
    with lock('coq'):
        status = translate.run()
        coq_makefile()
        p = subprocess.run(['timeout', str(timeout), 'make', '-j%d' % JOBS] + targets, cwd=COQ,
                           stdout=subprocess.PIPE, stderr=subprocess.STDOUT, text=True)
        return p.returncode == 0, p.stdout, status


def coqc_file(path, timeout=600):
    p = subprocess.run(['timeout', str(timeout), 'coqc', '-noglob', '-Q', COQ, 'RasnV',
                        '-w', '-notation-overridden,-deprecated-hint-without-locality', path],
                       stdout=subprocess.PIPE, stderr=subprocess.STDOUT, text=True)
    return p.returncode, p.stdout


def run_text_probes(ck, probes):
    """Directed probes for recorded findings that no generated family reaches.  A probe is a dict: slug, src (one module or a list of
    sources), want / forbid (regular expressions over the generated text with all white-space removed), optional config.  While the
    implementation misses a `want` or shows a `forbid`, the probe is a hit of the known finding `slug` (a violation if the slug is not
    listed); when the implementation is repaired the probe is silent."""
    if not probes:
        return
    cases = [{'op': 'compile', 'sources': p['src'] if isinstance(p['src'], list) else [p['src']], 'config': p.get('config', {}), 'text': True,
              'backend': p.get('backend', 'rasn')} for p in probes]
    for p, r in zip(probes, run_harness(cases)):
        ck.note_case('probe:' + json.dumps(p['src']))
        ck.count('probe')
        if 'panic' in r or 'crash' in r:
            ck.violation('impl-crash', p['src'], impl=r)
            continue
        text = re.sub(r'\s+', '', r.get('generated') or '') if r.get('ok') else ''
        missing = [w for w in p.get('want', []) if not re.search(w, text)]
        present = [w for w in p.get('forbid', []) if re.search(w, text)]
        if p.get('warn_free') and r.get('warnings'):
            continue                      # reported, not silent: outside this probe
        if missing or present or not r.get('ok'):
            info = {'asn1': p['src'], 'missing': missing, 'unexpected': present, 'ok': bool(r.get('ok'))}
            if ck.is_known(p['slug']):
                ck.known_hit(p['slug'], info)
            else:
                ck.violation('impl-violation', p['src'], missing=missing, unexpected=present, why=p.get('why', 'directed probe %s fails' % p['slug']))


def print_assumptions(prop, requires, names):
    """Run `Print Assumptions` on each theorem; returns {name: 'closed' | [axioms]} (or raises Broken)."""
    d = os.path.join(CACHE, 'audit')
    os.makedirs(d, exist_ok=True)
    path = os.path.join(d, 'Audit_%s_%d.v' % (prop, os.getpid()))
    with open(path, 'w') as f:
        for r in requires:
            f.write('Require Import %s.\n' % r)
        for n in names:
            f.write('Check %s.\nPrint Assumptions %s.\n' % (n, n))
    rc, out = coqc_file(path)
    for ext in ('.v', '.vo', '.vok', '.vos', '.glob'):
        try:
            os.unlink(path[:-2] + ext)
        except OSError:
            pass
    if rc != 0:
        raise Broken('audit', out[-3000:])
    res = {}
    # split on the Check outputs
    blocks = re.split(r'\n(?=[A-Za-z_][A-Za-z0-9_\.\']*\n?\s*:)', '\n' + out)
    closed = out.count('Closed under the global context')
    axioms = re.findall(r'^Axioms:\n((?:.+\n?)+?)(?=\n\S|\Z)', out, re.M)
    return {'closed': closed, 'axiom_blocks': axioms, 'raw': out}


FORBIDDEN = re.compile(r'\b(Admitted|admit|Axiom|Axioms|Parameter|Parameters|Conjecture|Conjectures|Hypothesis|'
                       r'Variable|Variables|Hypotheses|Unset\s+Guard|bypass_check|Admit\s+Obligations|'
                       r'type-in-type|impredicative-set)\b')


def grep_forbidden():
    """No Admitted/Axiom/... anywhere in the development. Section Variables are allowed only inside
    sections; we forbid them altogether except in files that declare a Section (checked textually)."""
    bad = []
    for d, _, files in os.walk(COQ):
        for fn in files:
            if not fn.endswith('.v'):
                continue
            path = os.path.join(d, fn)
            txt = open(path, encoding='utf-8').read()
            txt_nc = strip_coq_comments(txt)
            for m in FORBIDDEN.finditer(txt_nc):
                w = m.group(1)
                if w in ('Variable', 'Variables', 'Hypothesis', 'Hypotheses'):
                    # allowed only between Section ... End
                    before = txt_nc[:m.start()]
                    opened = len(re.findall(r'^\s*Section\s', before, re.M))
                    closed = len(re.findall(r'^\s*End\s', before, re.M)) - len(re.findall(r'^\s*Module\s', before, re.M))
                    if opened > max(closed, 0):
                        continue
                bad.append('%s: %s' % (os.path.relpath(path, ROOT), w))
    return bad


def strip_coq_comments(t):
    out = []
    depth = 0
    i = 0
    in_str = False
    while i < len(t):
        if depth == 0 and t[i] == '"':
            in_str = not in_str
            out.append(t[i])
            i += 1
            continue
        if not in_str and t.startswith('(*', i):
            depth += 1
            i += 2
            continue
        if not in_str and depth > 0 and t.startswith('*)', i):
            depth -= 1
            i += 2
            continue
        if depth == 0:
            out.append(t[i])
        i += 1
    return ''.join(out)


def theorem_names(prop_file):
    txt = strip_coq_comments(open(os.path.join(COQ, prop_file), encoding='utf-8').read())
    return re.findall(r'^\s*(?:Theorem|Lemma|Example|Corollary)\s+([A-Za-z0-9_\']+)', txt, re.M)


# ---- Coq term printers used by the case generators

def cz(i):
    return '(%d)%%Z' % i


def cn(i):
    return '%d%%N' % i


def cbool(b):
    return 'true' if b else 'false'


def copt(x, f):
    return 'None' if x is None else '(Some %s)' % f(x)


def clist(xs, f=lambda x: x):
    return '[' + '; '.join(f(x) for x in xs) + ']'


def cstr(s):
    """python str -> Coq `str` (list N of code points)"""
    if s == '':
        return '(@nil N)'
    return '[' + ';'.join('%d' % ord(c) for c in s) + ']%N'


def cbytes(b):
    if len(b) == 0:
        return '(@nil N)'
    return '[' + ';'.join('%d' % x for x in b) + ']%N'


def coq_eval_bad(prop, requires, case_type, check_fn, case_terms, shard_size=400, label='corr'):
    """Evaluate `check_fn : case_type -> bool` (a Coq term) on every case term inside Coq (vm_compute)
    and return the indices of the cases on which it is false."""
    return coq_eval_bad_multi(prop, requires, case_type, [check_fn], case_terms, shard_size, label)[0]


def coq_eval_bad_multi(prop, requires, case_type, check_fns, case_terms, shard_size=400, label='corr'):
    """Same for several check functions over the same case list (one parse of the cases)."""
    if not case_terms:
        return [[] for _ in check_fns]
    d = os.path.join(CACHE, 'cases', prop)
    os.makedirs(d, exist_ok=True)
    # round-robin sharding, so that expensive cases (which tend to be adjacent) spread over all processes
    nshards = max(1, (len(case_terms) + shard_size - 1) // shard_size)
    if len(case_terms) > 64:
        nshards = max(nshards, min(JOBS, len(case_terms) // 32))
    shard_idx = [list(range(j, len(case_terms), nshards)) for j in range(nshards)]
    shards = [[case_terms[i] for i in idxs] for idxs in shard_idx]
    bad = [[] for _ in check_fns]
    running = []

    def launch(si, terms):
        path = os.path.join(d, 'Cases_%s_%s_%d_%d.v' % (prop, label, os.getpid(), si))
        with open(path, 'w', encoding='utf-8') as f:
            f.write('From Coq Require Import ZArith NArith List Bool.\nImport ListNotations.\n')
            for r in requires:
                f.write('Require Import %s.\n' % r)
            f.write('Definition cases : list (%s) :=\n [ ' % case_type)
            f.write(';\n   '.join(terms))
            f.write(' ].\n')
            for fn in check_fns:
                f.write('Eval vm_compute in (bad_indices (%s) cases).\n' % fn)
        p = subprocess.Popen(['timeout', '900', 'coqc', '-noglob', '-Q', COQ, 'RasnV', '-w', '-all', path],
                             stdout=subprocess.PIPE, stderr=subprocess.STDOUT, text=True)
        return (si, path, p)

    pending = list(enumerate(shards))
    while pending or running:
        while pending and len(running) < JOBS:
            si, terms = pending.pop(0)
            running.append(launch(si, terms))
        si, path, p = running.pop(0)
        out, _ = p.communicate()
        for ext in ('.vo', '.vok', '.vos', '.glob'):
            try:
                os.unlink(path[:-2] + ext)
            except OSError:
                pass
        if p.returncode != 0:
            raise Broken('coq-eval', 'coqc failed on %s:\n%s' % (path, out[-3000:]))
        ms = re.findall(r'=\s*(\[.*?\])\s*:\s*list N', out, re.S)
        if len(ms) != len(check_fns):
            raise Broken('coq-eval', 'unparsable coqc output for %s:\n%s' % (path, out[-2000:]))
        for k, m in enumerate(ms):
            for x in re.findall(r'(\d+)%N', m):
                bad[k].append(shard_idx[si][int(x)])
        os.unlink(path)
    return [sorted(b) for b in bad]


def coq_eval_show(prop, requires, exprs):
    """Evaluate a few Coq expressions and return the raw printed values (for replay files)."""
    d = os.path.join(CACHE, 'cases', prop)
    os.makedirs(d, exist_ok=True)
    path = os.path.join(d, 'Show_%s_%d.v' % (prop, os.getpid()))
    with open(path, 'w', encoding='utf-8') as f:
        f.write('From Coq Require Import ZArith NArith List Bool.\nImport ListNotations.\n')
        for r in requires:
            f.write('Require Import %s.\n' % r)
        for e in exprs:
            f.write('Eval vm_compute in (%s).\n' % e)
    rc, out = coqc_file(path)
    for ext in ('.v', '.vo', '.vok', '.vos', '.glob'):
        try:
            os.unlink(path[:-2] + ext)
        except OSError:
            pass
    return out


# ----------------------------------------------------------------------------- known findings

def load_known(prop):
    """KNOWN_FINDINGS.txt lines: `known: property=Cxx id=<slug> <description>` / `fixed: property=...`"""
    out = []
    path = os.path.join(ROOT, 'KNOWN_FINDINGS.txt')
    if not os.path.exists(path):
        return out
    for line in open(path, encoding='utf-8'):
        line = line.strip()
        m = re.match(r'known:\s+property=(\S+)\s+id=(\S+)\s+(.*)', line)
        if m and m.group(1) == prop:
            out.append({'id': m.group(2), 'text': m.group(3)})
    return out


# ----------------------------------------------------------------------------- check driver

class Check:
    """One run of one property's check. Collects results and produces verdict + evidence."""

    def __init__(self, prop, tier, seed):
        self.prop = prop
        self.tier = tier
        self.seed = seed
        self.t0 = time.time()
        self.rng = random.Random(seed * 1000003 + int(hashlib.sha256(prop.encode()).hexdigest()[:8], 16))
        self.violations = []      # dicts: kind, case, ... (new, unlisted)
        self.known_seen = {}      # id -> example
        self.known_count = {}     # id -> number of cases classified into it
        self.broken = []          # proof / translator / correspondence items that no longer check
        self.coverage = {'evaluations': 0, 'distinct_nontrivial': 0, 'samples': [], 'obligations': 0,
                         'discharged': 0, 'checker_cmd': '', 'trusted_base': [], 'rule': ''}
        self.assumptions = []
        self.known = load_known(prop)
        self.distinct = set()
        self.histogram = {}

    # -- bookkeeping
    def count(self, key, n=1):
        self.histogram[key] = self.histogram.get(key, 0) + n

    def note_case(self, canonical, nontrivial=True):
        self.coverage['evaluations'] += 1
        if nontrivial:
            self.distinct.add(hashlib.sha256(canonical.encode()).digest()[:12])

    def sample(self, x):
        if len(self.coverage['samples']) < 12:
            self.coverage['samples'].append(x)

    def violation(self, kind, case, **kw):
        v = {'kind': kind, 'case': case}
        v.update(kw)
        self.violations.append(v)

    def known_hit(self, kid, example):
        if kid not in self.known_seen:
            self.known_seen[kid] = example
        self.known_count[kid] = self.known_count.get(kid, 0) + 1
        if os.environ.get('VERIF_DUMP_KNOWN'):
            with open(os.path.join(CACHE, 'known_hits_%s.jsonl' % self.prop), 'a') as f:
                f.write(json.dumps({'id': kid, 'example': example}) + '\n')

    def is_known(self, kid):
        return any(k['id'] == kid for k in self.known)

    # -- proofs
    def prove(self, prop_file, requires, extra=(), titems=()):
        """Build Props/Cxx.vo (after re-translation), audit it. Records obligations."""
        target = prop_file[:-2] + '.vo'
        ok, log, tstatus = coq_build([target] + list(extra))
        self.coverage['translator'] = {k: {kk: vv for kk, vv in v.items() if kk in ('ok', 'sha', 'reason')}
                                       for k, v in tstatus.items() if k in titems}
        names = theorem_names(prop_file)
        self.coverage['obligations'] = len(names)
        self.coverage['checker_cmd'] = 'tools/translate.py && make -C coq %s && coqc Print Assumptions audit' % target
        self.coverage['theorems'] = names
        for k, v in tstatus.items():
            if not v.get('ok') and k in titems:
                self.broken.append({'kind': 'translator', 'item': k, 'detail': v.get('reason', '')})
        if not ok:
            m = re.search(r'File "([^"]+)", line (\d+)[^\n]*\n(?:.*\n){0,12}', log)
            self.broken.append({'kind': 'proof', 'item': prop_file, 'detail': (m.group(0) if m else log[-1500:])})
            self.coverage['discharged'] = 0
            return False
        bad = grep_forbidden()
        if bad:
            self.broken.append({'kind': 'audit', 'item': 'forbidden vernacular', 'detail': '; '.join(bad)})
        try:
            pa = print_assumptions(self.prop, requires, names)
        except Broken as b:
            self.broken.append({'kind': 'audit', 'item': 'Print Assumptions', 'detail': b.detail})
            return False
        allowed = set()
        axs = set()
        for blk in pa['axiom_blocks']:
            for line in blk.splitlines():
                mm = re.match(r'^(\S+)\s*:', line)
                if mm:
                    axs.add(mm.group(1))
        extra = axs - allowed
        if extra:
            self.broken.append({'kind': 'audit', 'item': 'axioms', 'detail': ', '.join(sorted(extra))})
        self.coverage['discharged'] = pa['closed'] if not extra else 0
        self.coverage['axioms'] = sorted(axs)
        if pa['closed'] != len(names):
            self.broken.append({'kind': 'audit', 'item': 'closedness',
                                'detail': '%d of %d theorems closed under the global context' % (pa['closed'], len(names))})
        lockf = os.path.join(COQ, 'props.lock')
        if os.path.exists(lockf):
            want = dict(l.split() for l in open(lockf) if l.strip())
            have = hashlib.sha256(open(os.path.join(COQ, prop_file), 'rb').read()).hexdigest()
            if want.get(prop_file) and want[prop_file] != have:
                self.broken.append({'kind': 'audit', 'item': 'props.lock', 'detail': prop_file + ' differs from its pinned hash'})
        return not self.broken

    # -- verdict
    def finish(self, level='proof'):
        wall = time.time() - self.t0
        ev_dir = os.path.join(ROOT, 'evidence')
        os.makedirs(ev_dir, exist_ok=True)
        rep_dir = os.path.join(ROOT, 'replays')
        os.makedirs(rep_dir, exist_ok=True)
        # replay files of earlier runs of this property/tier/seed are stale now
        for suffix in ('', '_broken'):
            try:
                os.unlink(os.path.join(rep_dir, '%s_%s_%d%s.json' % (self.prop, self.tier, self.seed, suffix)))
            except OSError:
                pass
        lines = []
        for kid, ex in sorted(self.known_seen.items()):
            txt = next((k['text'] for k in self.known if k['id'] == kid), '')
            lines.append('KNOWN-FINDING: property=%s %s [%s] e.g. %s' % (self.prop, txt, kid, json.dumps(ex)[:300]))
        exit_code = 0
        replays = []
        if self.violations:
            exit_code = 1
            # one replay file for the first violation of each kind (all are stored in the file list)
            path = os.path.join(rep_dir, '%s_%s_%d.json' % (self.prop, self.tier, self.seed))
            with open(path, 'w', encoding='utf-8') as f:
                json.dump({'property': self.prop, 'violations': self.violations[:50],
                           'broken': self.broken}, f, indent=1, ensure_ascii=False)
            replays.append(path)
            lines.append('VIOLATION property=%s replay=%s' % (self.prop, path))
        elif self.broken:
            exit_code = 1
            path = os.path.join(rep_dir, '%s_%s_%d_broken.json' % (self.prop, self.tier, self.seed))
            with open(path, 'w', encoding='utf-8') as f:
                json.dump({'property': self.prop, 'violations': [], 'broken': self.broken,
                           'note': 'a proof obligation, translated item or correspondence no longer checks; '
                                   'the search found no input on which the property fails'}, f, indent=1, ensure_ascii=False)
            lines.append('VIOLATION property=%s replay=%s no-failing-input-found' % (self.prop, path))
        self.coverage['distinct_nontrivial'] = len(self.distinct)
        self.coverage['histogram'] = self.histogram
        self.coverage['known_findings_seen'] = sorted(self.known_seen)
        self.coverage['known_findings_hits'] = dict(sorted(self.known_count.items()))
        self.coverage['broken'] = self.broken
        ev = {'property_id': self.prop, 'tier': self.tier, 'seed': self.seed, 'level': level,
              'coverage': self.coverage, 'assumptions': self.assumptions, 'wall_s': round(wall, 2),
              'violations': len(self.violations) + (1 if self.broken and not self.violations else 0)}
        with open(os.path.join(ev_dir, self.prop + '.json'), 'w', encoding='utf-8') as f:
            json.dump(ev, f, indent=1, ensure_ascii=False)
        for l in lines:
            print(l)
        print('%s %s tier=%s seed=%d evaluations=%d distinct=%d obligations=%d/%d wall=%.1fs'
              % ('FAIL' if exit_code else 'PASS', self.prop, self.tier, self.seed, self.coverage['evaluations'],
                 len(self.distinct), self.coverage['discharged'], self.coverage['obligations'], wall))
        return exit_code


TRUSTED_BASE = [
    'Coq 8.16.1 kernel (coqc, full .vo builds), vm_compute for finite sweeps and for evaluating the model on cases; no native_compute',
    'no axioms: Print Assumptions of every property theorem must report "Closed under the global context"',
    'tools/translate.py + tools/rustsub.py (Rust-subset parser emitting coq/Gen/T*.v)',
    'harness/ (Rust: serde_json, syn projection, catch_unwind) built from /repo working tree with feature verif-hooks',
    'Python case generators and Coq term printers in props/*.py (they bound only the search / correspondence sample)',
]
