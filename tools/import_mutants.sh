#!/bin/sh
# usage: tools/import_mutants.sh <Cxx> <scratch worktree>  -- copies out/mN/{patch.diff,demo.asn1,meta.json,clean.out,patched.out} into
# seeded/<Cxx>-m<next>/ (numbering continues after the existing ones)
p="$1"; wt="$2"
cd /verif
n=$(ls -d seeded/$p-m* 2>/dev/null | sed 's/.*-m//' | sort -n | tail -1); n=${n:-0}
for d in "$wt"/out/m*; do
  [ -f "$d/patch.diff" ] || continue
  n=$((n+1)); t=seeded/$p-m$n; mkdir -p $t
  cp "$d/patch.diff" $t/patch.diff; cp "$d/meta.json" $t/meta.json
  mkdir -p $t/demo; cp "$d"/demo* "$d"/*.out $t/demo/ 2>/dev/null
  echo "$t <- $d"
done
