#!/bin/sh
# usage: tools/try_mutant.sh <patch.diff> <Cxx> [Cyy ...]  -- applies the patch to /repo, runs the quick checks, undoes it
patch="$1"; shift
cd /verif
# the evidence files in the tree must come from the unchanged /repo: keep them aside while a seeded change is applied
rm -rf .cache/evidence-keep && cp -r evidence .cache/evidence-keep
git -C /repo apply "$patch" || { echo "patch does not apply"; exit 2; }
for p in "$@"; do
  ./check "$p" --tier quick > /tmp/mutant_$p.out 2>&1; rc=$?
  echo "== $p exit=$rc"; grep -E "^(VIOLATION|KNOWN-FINDING|PASS|FAIL)" /tmp/mutant_$p.out
done
git -C /repo checkout -- . 
rm -rf evidence && mv .cache/evidence-keep evidence
git -C /repo status --short | head -3
# rebuild the harness on the restored tree so that a later manual probe does not use a mutant binary
(cd /verif && python3 -c "import sys; sys.path.insert(0,'tools'); import common; common.build_harness()") >/dev/null 2>&1
