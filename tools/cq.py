#!/usr/bin/env python3
import sys, os, time
sys.path.insert(0, os.path.dirname(os.path.abspath(__file__)))
import common
t = time.time()
ok, log, st = common.coq_build(sys.argv[1:], timeout=int(os.environ.get('CQ_TIMEOUT', '900')))
print('OK' if ok else 'FAILED', '%.1fs' % (time.time() - t))
print(log[-int(os.environ.get('CQ_TAIL', '2500')):])
