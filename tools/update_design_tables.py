#!/usr/bin/env python3
"""Replaces the generated tables of DESIGN.md section 11.3 (from '#### Fixed defects' up to '### 11.4') by the output of mktables.py."""
import os
import subprocess
ROOT = os.path.dirname(os.path.dirname(os.path.abspath(__file__)))
p = os.path.join(ROOT, 'DESIGN.md')
s = open(p, encoding='utf-8').read()
a = s.index('#### Fixed defects')
b = s.index('### 11.4')
out = subprocess.run(['python3', os.path.join(ROOT, 'tools', 'mktables.py')], capture_output=True, text=True, check=True).stdout
open(p, 'w', encoding='utf-8').write(s[:a] + out.rstrip('\n') + '\n\n' + s[b:])
print('tables updated: %d bytes' % len(out))
