#!/bin/sh
# usage: tools/regress_seeded.sh [ids...]  -- applies every seeded change in turn, runs the quick check of its property, undoes it;
# prints one line per change: "<id> caught|MISSED|does-not-apply".  Nothing else may run meanwhile.
cd /verif
ids="$@"
[ -z "$ids" ] && ids=$(ls -d seeded/*/ | xargs -n1 basename)
for id in $ids; do
  p=${id%%-*}
  out=$(tools/try_mutant.sh /verif/seeded/$id/patch.diff $p 2>&1)
  st=$(python3 -c "import json,sys; print(json.load(open('/verif/seeded/$id/meta.json')).get('status',''))" 2>/dev/null)
  if echo "$out" | grep -q "patch does not apply"; then echo "$id does-not-apply"
  elif grep -q "harness-build" replays/${p}_quick_1_broken.json 2>/dev/null && echo "$out" | grep -q "no-failing-input-found"; then echo "$id does-not-compile"
  elif [ -n "$st" ] && ! echo "$out" | grep -q "^VIOLATION"; then echo "$id not-caught ($st)"
  elif echo "$out" | grep -q "^VIOLATION"; then echo "$id caught $(echo "$out" | grep -c no-failing-input-found | sed 's/^0$//;s/^1$/(broken obligation only)/')"
  else echo "$id MISSED"; fi
done
