#!/bin/sh
# usage: tools/confirm_mutant.sh <worktree> <patch.diff>   -- applies the patch in the scratch worktree, runs the
# repository's own test suite there, reverts.  Prints "tests: passed=N failed=M".
wt="$1"; patch="$2"
git -C "$wt" checkout -q -- . 
git -C "$wt" apply "$patch" || { echo "patch does not apply"; exit 2; }
(cd "$wt" && CARGO_NET_OFFLINE=true CARGO_TARGET_DIR=/tmp/mut-target cargo test --workspace --offline 2>&1 | grep -E "^test result" | awk '{p+=$4; f+=$6} END {print "tests: passed=" p " failed=" f}')
git -C "$wt" checkout -q -- .
