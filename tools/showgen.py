#!/usr/bin/env python3
"""usage: tools/showgen.py [--ts] [--cfg k=v ...] file...  -- compiles the sources together and prints the generated text, white-space squeezed, one item per line"""
import sys, json, re, os
sys.path.insert(0, os.path.dirname(os.path.abspath(__file__)))
import common
args = sys.argv[1:]
backend = 'rasn'
cfg = {}
files = []
for a in args:
    if a == '--ts': backend = 'ts'
    elif '=' in a and not os.path.exists(a):
        k, v = a.split('=', 1); cfg[k] = json.loads(v)
    else: files.append(a)
srcs = [open(f).read() for f in files]
r = common.run_harness([{'op': 'compile', 'sources': srcs, 'backend': backend, 'config': cfg, 'text': True}])[0]
print('ok=', r.get('ok'), 'warnings=', r.get('warnings'), 'err=', (r.get('err') or '')[:200], r.get('panic'))
t = re.sub(r'\s+', ' ', r.get('generated') or '')
t = re.sub(r' ?# ?\[ ?derive ?\([^\]]*\] ?', '\n', t)
for ln in t.split('\n'):
    print(ln.strip()[:400])
