#!/usr/bin/env python3
"""Prints the markdown tables of DESIGN.md section 11 from KNOWN_FINDINGS.txt and seeded/*/meta.json."""
import glob
import json
import os
import re

ROOT = os.path.dirname(os.path.dirname(os.path.abspath(__file__)))


def esc(s):
    return s.replace('|', '\\|').replace('\n', ' ')


def main():
    known, fixed = [], []
    for ln in open(os.path.join(ROOT, 'KNOWN_FINDINGS.txt'), encoding='utf-8'):
        m = re.match(r'known: property=(C\d\d) id=(\S+) (.*)', ln)
        if m:
            known.append(m.groups())
        m = re.match(r'fixed: property=(C\d\d) (\S+) (.*)', ln)
        if m:
            fixed.append(m.groups())
    print('#### Fixed defects (%d entries; each a `fix:` commit in /repo)\n' % len(fixed))
    print('| property | commit | what failed |\n|---|---|---|')
    for p, c, t in fixed:
        print('| %s | %s | %s |' % (p, c, esc(t[:330])))
    print('\n#### Known findings (%d; recorded, not repaired)\n' % len(known))
    print('| property | id | what fails |\n|---|---|---|')
    for p, i, t in known:
        print('| %s | %s | %s |' % (p, i, esc(t[:330])))
    print('\n#### Seeded changes and the checks that catch them\n')
    print('| seeded change | where | needs | caught by | history |\n|---|---|---|---|---|')
    for d in sorted(glob.glob(os.path.join(ROOT, 'seeded', '*'))):
        mp = os.path.join(d, 'meta.json')
        if not os.path.exists(mp):
            continue
        m = json.load(open(mp, encoding='utf-8'))
        conf = m.get('confirmed', {})
        files = ', '.join(os.path.basename(f) for f in m.get('files_changed', []))[:60]
        print('| %s | %s | %s | %s | %s |' % (os.path.basename(d), esc(files), esc((m.get('needs_to_manifest') or m.get('summary') or '')[:170]),
                                              ', '.join(conf.get('detected_by', [])), esc(conf.get('history', '')[:230])))


if __name__ == '__main__':
    main()
