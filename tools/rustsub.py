"""A parser for the small Rust subset the translator (T-items) understands.

Subset: literal arrays, `if / else if / else` ladders, `match` on identifiers,
tuples, paths, literals, or-patterns, wildcard and `x if guard` arms; boolean
operators, comparisons, `+ - *`, integer `MAX`/`MIN` associated consts with `.into()`,
method calls `.min(..)/.max(..)`, paths, string/char/integer literals, tuples, struct
literals `Path { field: expr, .. }`.

Anything else raises Unsupported -- the caller reports TRANSLATOR-BROKEN.
"""
import re


class Unsupported(Exception):
    pass


TOKEN_RE = re.compile(r"""
    (?P<ws>\s+|//[^\n]*|/\*.*?\*/)
  | (?P<str>b?"(?:\\.|[^"\\])*")
  | (?P<chr>'(?:\\u\{[0-9a-fA-F]+\}|\\.|[^'\\])')
  | (?P<life>'[A-Za-z_][A-Za-z0-9_]*)
  | (?P<num>0x[0-9a-fA-F_]+|[0-9][0-9_]*(?:[iu](?:8|16|32|64|128|size))?)
  | (?P<id>[A-Za-z_][A-Za-z0-9_]*!?)
  | (?P<op>=>|::|<=|>=|==|!=|&&|\|\||\.\.=|\.\.|->|[-+*/%<>=!&|.,;:(){}\[\]#?@^])
""", re.X | re.S)


def tokenize(src):
    out = []
    pos = 0
    while pos < len(src):
        m = TOKEN_RE.match(src, pos)
        if not m:
            raise Unsupported("cannot tokenize at %r" % src[pos:pos + 30])
        pos = m.end()
        k = m.lastgroup
        if k == 'ws':
            continue
        out.append((k, m.group(k)))
    return out


def find_item(src, header_re):
    """Return the text of the brace-delimited body following the first match of header_re."""
    m = re.search(header_re, src)
    if not m:
        raise Unsupported("item not found: %s" % header_re)
    i = src.index('{', m.end() - 1) if src[m.end() - 1] != '{' else m.end() - 1
    return balanced(src, i, '{', '}')


def balanced(src, i, o, c):
    assert src[i] == o
    depth = 0
    j = i
    in_str = False
    while j < len(src):
        ch = src[j]
        if in_str:
            if ch == '\\':
                j += 2
                continue
            if ch == '"':
                in_str = False
        elif ch == '"':
            in_str = True
        elif ch == "'":
            # char literal or lifetime
            m = re.match(r"'(?:\\u\{[0-9a-fA-F]+\}|\\.|[^'\\])'", src[j:])
            if m:
                j += m.end()
                continue
        elif src.startswith('//', j):
            j = src.index('\n', j)
            continue
        elif ch == o:
            depth += 1
        elif ch == c:
            depth -= 1
            if depth == 0:
                return src[i + 1:j]
        j += 1
    raise Unsupported("unbalanced")


INT_BOUNDS = {}
for bits in (8, 16, 32, 64, 128):
    INT_BOUNDS['u%d' % bits] = (0, 2 ** bits - 1)
    INT_BOUNDS['i%d' % bits] = (-2 ** (bits - 1), 2 ** (bits - 1) - 1)


class P:
    def __init__(self, toks):
        self.t = toks
        self.i = 0

    def peek(self, k=0):
        return self.t[self.i + k] if self.i + k < len(self.t) else ('eof', '')

    def next(self):
        x = self.peek()
        self.i += 1
        return x

    def accept(self, v):
        if self.peek()[1] == v:
            self.i += 1
            return True
        return False

    def expect(self, v):
        if not self.accept(v):
            raise Unsupported("expected %r got %r" % (v, self.peek()))

    # ---- expressions
    def expr(self, no_struct=False):
        return self.or_(no_struct)

    def or_(self, ns):
        l = self.and_(ns)
        while self.accept('||'):
            l = ('bin', '||', l, self.and_(ns))
        return l

    def and_(self, ns):
        l = self.cmp(ns)
        while self.accept('&&'):
            l = ('bin', '&&', l, self.cmp(ns))
        return l

    def cmp(self, ns):
        l = self.add(ns)
        if self.peek()[1] in ('<=', '>=', '<', '>', '==', '!='):
            op = self.next()[1]
            return ('bin', op, l, self.add(ns))
        return l

    def add(self, ns):
        l = self.mul(ns)
        while self.peek()[1] in ('+', '-'):
            op = self.next()[1]
            l = ('bin', op, l, self.mul(ns))
        return l

    def mul(self, ns):
        l = self.unary(ns)
        while self.peek()[1] in ('*',):
            op = self.next()[1]
            l = ('bin', op, l, self.unary(ns))
        return l

    def unary(self, ns):
        if self.accept('!'):
            return ('not', self.unary(ns))
        if self.accept('-'):
            return ('neg', self.unary(ns))
        if self.accept('&') or self.accept('*'):
            return self.unary(ns)
        return self.postfix(ns)

    def postfix(self, ns):
        e = self.atom(ns)
        while True:
            if self.peek()[1] == '.' and self.peek(1)[0] == 'id':
                self.next()
                name = self.next()[1]
                if self.accept('('):
                    args = []
                    while not self.accept(')'):
                        args.append(self.expr())
                        self.accept(',')
                    if name in ('into', 'clone', 'to_owned', 'to_string') and not args:
                        continue
                    e = ('call', name, [e] + args)
                else:
                    e = ('field', e, name)
            elif self.peek()[1] == '.' and self.peek(1)[0] == 'num':
                self.next()
                e = ('field', e, self.next()[1])
            elif self.accept('?'):
                continue
            else:
                return e

    def path(self):
        segs = [self.next()[1]]
        while self.peek()[1] == '::':
            self.next()
            segs.append(self.next()[1])
        return segs

    def atom(self, ns):
        k, v = self.peek()
        if v == 'if':
            return self.if_()
        if v == 'match':
            return self.match()
        if v == '(':
            self.next()
            items = []
            trailing = False
            while not self.accept(')'):
                items.append(self.expr())
                trailing = self.accept(',')
            if len(items) == 1 and not trailing:
                return items[0]
            return ('tuple', items)
        if v == '{':
            return self.block()
        if k == 'num':
            self.next()
            return ('int', parse_int(v))
        if k == 'str':
            self.next()
            return ('str', unescape(v))
        if k == 'chr':
            self.next()
            return ('chr', unescape_char(v))
        if k == 'id':
            segs = self.path()
            if len(segs) == 2 and segs[0] in INT_BOUNDS and segs[1] in ('MAX', 'MIN'):
                lo, hi = INT_BOUNDS[segs[0]]
                return ('int', hi if segs[1] == 'MAX' else lo)
            if self.peek()[1] == '(':
                self.next()
                args = []
                while not self.accept(')'):
                    args.append(self.expr())
                    self.accept(',')
                return ('app', segs, args)
            if self.peek()[1] == '{' and not ns and segs[-1][0].isupper():
                self.next()
                fields = []
                while not self.accept('}'):
                    if self.accept('..'):
                        fields.append(('..', self.expr()))
                        continue
                    fname = self.next()[1]
                    if self.accept(':'):
                        fields.append((fname, self.expr()))
                    else:
                        fields.append((fname, ('path', [fname])))
                    self.accept(',')
                return ('struct', segs, fields)
            return ('path', segs)
        raise Unsupported("unexpected token %r" % (self.peek(),))

    def block(self):
        self.expect('{')
        e = self.expr()
        self.expect('}')
        return e

    def if_(self):
        self.expect('if')
        c = self.expr(no_struct=True)
        t = self.block()
        self.expect('else')
        if self.peek()[1] == 'if':
            e = self.if_()
        else:
            e = self.block()
        return ('if', c, t, e)

    def match(self):
        self.expect('match')
        s = self.expr(no_struct=True)
        self.expect('{')
        arms = []
        while not self.accept('}'):
            pats = [self.pat()]
            while self.accept('|'):
                pats.append(self.pat())
            guard = None
            if self.accept('if'):
                guard = self.expr(no_struct=True)
            self.expect('=>')
            body = self.expr()
            self.accept(',')
            arms.append((pats, guard, body))
        return ('match', s, arms)

    def pat(self):
        k, v = self.peek()
        if v == '_':
            self.next()
            return ('wild',)
        if v == '(':
            self.next()
            items = []
            while not self.accept(')'):
                items.append(self.pat())
                self.accept(',')
            return ('ptuple', items)
        if v == '&':
            self.next()
            return self.pat()
        if k == 'num':
            self.next()
            return ('pint', parse_int(v))
        if v == '-' and self.peek(1)[0] == 'num':
            self.next()
            return ('pint', -parse_int(self.next()[1]))
        if k == 'str':
            self.next()
            return ('pstr', unescape(v))
        if k == 'chr':
            self.next()
            c = unescape_char(v)
            if self.accept('..='):
                c2 = unescape_char(self.next()[1])
                return ('pchr_range', c, c2)
            return ('pchr', c)
        if k == 'id':
            segs = self.path()
            if self.peek()[1] == '(':
                self.next()
                items = []
                while not self.accept(')'):
                    items.append(self.pat())
                    self.accept(',')
                return ('pctor', segs, items)
            if len(segs) == 1 and (segs[0][0].islower() or segs[0][0] == '_'):
                return ('pvar', segs[0])
            return ('ppath', segs)
        raise Unsupported("unexpected pattern token %r" % (self.peek(),))


def parse_int(v):
    v = re.sub(r'(?<=[0-9a-fA-F_])[iu](8|16|32|64|128|size)$', '', v)
    v = v.replace('_', '')
    return int(v, 16) if v.startswith('0x') else int(v)


def unescape(lit):
    body = lit[lit.index('"') + 1:-1]
    out = []
    i = 0
    while i < len(body):
        c = body[i]
        if c == '\\':
            n = body[i + 1]
            if n == 'u':
                j = body.index('}', i)
                out.append(chr(int(body[i + 3:j], 16)))
                i = j + 1
                continue
            out.append({'n': '\n', 't': '\t', 'r': '\r', '\\': '\\', '"': '"', "'": "'", '0': '\0'}[n])
            i += 2
            continue
        out.append(c)
        i += 1
    return ''.join(out)


def unescape_char(lit):
    body = lit[1:-1]
    if body.startswith('\\u'):
        return chr(int(body[3:-1], 16))
    if body.startswith('\\'):
        return {'n': '\n', 't': '\t', 'r': '\r', '\\': '\\', '"': '"', "'": "'", '0': '\0'}[body[1]]
    return body


def parse_expr(src):
    p = P(tokenize(src))
    e = p.expr()
    if p.peek()[0] != 'eof':
        raise Unsupported("trailing tokens %r" % (p.t[p.i:p.i + 5],))
    return e


def parse_str_array(src):
    """`["a", "b", ...]` -> list of python strings"""
    toks = tokenize(src)
    out = []
    for k, v in toks:
        if k == 'str':
            out.append(unescape(v))
        elif k == 'chr':
            out.append(unescape_char(v))
        elif v in ('[', ']', ',', '&'):
            continue
        else:
            raise Unsupported("not a literal array: %r" % v)
    return out
