#!/usr/bin/env python3
"""Regenerates MANIFEST.json from the table below (kept valid at all times)."""
import json
import os

ROOT = os.path.dirname(os.path.dirname(os.path.abspath(__file__)))
ENGINE = 'coq-proof+correspondence'
# id -> (category, text, design_ref, level_note, technique)
CLAIMED = {
    'C06': ('proof',
            'Unbounded theorems (all of Z, any number of serial constraints) that the width ladders, re-translated from the Rust '
            'source on every run, hold every permitted value and are fixed-width only for finite non-extensible constraints; '
            'correspondence on the full 53x53 boundary grid; Spec oracle evaluated in Coq on end-to-end output',
            '§6 C06',
            'translator + harness + rustc integer ranges; PER-visible folding of set operations is C04\'s model',
            'Coq proof over translated ladders + differential correspondence'),
    'C14': ('proof',
            'Theorems for lists of any length over any integers: identifiers preserved in order, explicit numbers kept, root '
            'identifier-only items successive from 0 skipping used numbers (declarative: non-negative, unused, increasing, gap-free), '
            'additions fresh, all numbers distinct for legal inputs; hand model of the numbering functions tied by correspondence '
            'on exhaustive small + random enumerations through the real compiler; Spec oracle in Coq',
            '§6 C14',
            'hand model of lexer/enumerated.rs numbering (saturation at i128::MAX not modelled); syn projection of discriminants',
            'Coq proof (induction over item lists) + differential correspondence'),
    'C16': ('proof',
            'Theorems for ASN.1 identifiers of any length: each of the four conversions yields a legal non-keyword Rust identifier '
            '(keyword table re-translated from the source; escape completeness against the Rust 2021 strict+reserved list is a '
            'recomputed finite check), keeps the alphanumeric skeleton up to the r_/R_ escape, and the identifier annotation rule; '
            'hand model of the conversions tied by correspondence (exhaustive small alphabet, all keywords, random <=24 chars) '
            'and end-to-end in six roles; Spec oracle in Coq',
            '§6 C16',
            'ASCII identifiers only (lexer guarantees); hand model of to_rust_* (char_indices/peek loop) tied by H7',
            'Coq proof (induction on strings) + translated keyword table + differential correspondence'),
    'C04': ('proof',
            'Theorems for integer element sets of any length and operator sequence (single values, ranges with MIN/MAX, '
            'non-PER-visible elements), alone, inside SIZE(..) and as serial constraints: the folded bound never excludes a '
            'permitted value, equals the X.691 10.3.21 effective constraint when intersections are non-empty, is extensible exactly '
            'when marked, and size-many fuel suffices; the precedence defect is a machine-checked refutation (known finding). Hand '
            'transcription of fold_constraint_set & co tied by correspondence (hooked fold on random mixed sets, public '
            'per_visible_range_constraints on the 7-point alphabet) and end-to-end in 7 positions; Spec oracle in Coq',
            '§6 C04',
            'hand model of per_visible.rs (string/alphabet arms modelled and corresponded, not covered by theorems); X.680 precedence '
            'oracle for <= 3 operands; value references in bounds are C09',
            'Coq proof (induction over set operations) + differential correspondence'),
    'C05': ('proof',
            'Theorems over component lists of any length: members = root components then one member per addition/group in source '
            'order; exactly the positions after the marker carry an extension annotation (none without a marker); a plain addition is '
            'extension_addition, each [[ ]] group one optional extension_addition_group member holding exactly the grouped components; '
            'CHOICE alternatives flattened in order with the same index rule; non_exhaustive iff marker or EXTENSIBILITY IMPLIED. Hand '
            'model of the From impls and member formatting tied end-to-end (syn projection) on random shapes; independent Spec oracle in Coq',
            '§6 C05',
            'component lists without COMPONENTS OF (C09); ENUMERATED index is C14; identifiers satisfy X.680 12.3 (no underscore)',
            'Coq proof (list induction) + differential correspondence'),
    'C03': ('proof',
            'The property\'s whole configuration space (module default x keyword x class x position x kind) is closed by a recomputed '
            'finite check lifted to a forall statement (class and number kept; explicit exactly per X.680 31.2.7 outside the two known '
            'classes); an unbounded theorem by mutual induction that the module default reaches every tag at every nesting depth; the '
            'automatic_tags rule equals X.680 25.3/29.2. Hand model tied end-to-end on all 1200 configurations plus random types; '
            'two machine-checked refutations are the known findings',
            '§6 C03',
            'attributes are read, not DER: rasn\'s own explicit tagging of CHOICE/open types is assumed (their explicitness is not compared); '
            'IMPLICIT on a CHOICE/open type is excluded as illegal per X.680',
            'Coq proof (finite closure by vm_compute + mutual induction) + differential correspondence'),
    'C15': ('proof',
            'Theorems: no annotation for string types that are not known-multiplier; for one FROM whose operands (strings of any '
            'length, character ranges) are joined by `|`, the sorted annotation denotes exactly the permitted characters, and single '
            'characters / range ends lie in the base alphabet; sorting is irrelevant; the operator defect is a machine-checked refutation. '
            'Character tables and the known-multiplier test are re-translated from the source (T03) and compared with the implementation; '
            'hand model of try_new/from_subtype_elem/finalize/format_alphabet_annotations (over the C04 fold in alphabet mode) tied by '
            'correspondence on random FROM / SIZE^FROM / mixed sets; Spec oracle compares denoted sets character by character',
            '§6 C15',
            'four known findings (operators inside FROM, collation order of Numeric/Printable ranges, serial FROMs, FROM inside outer set '
            'operations); contained subtypes not modelled; cstrings that are also tstrings are lexed as TIME values (kept out of the sweep, C07)',
            'Coq proof (induction over set operations) + translated tables + differential correspondence'),
    'C17': ('proof',
            'Invariant theorem over EVERY sequence of slice / reset_context operations on EVERY source: the remaining input is the '
            'substring at the recorded offset, offset within the input, line = 1 + line breaks before the offset, context start <= '
            'offset with a consistent line; hence Display, contextualize and the structured report agree on the line. Hand model of '
            'input.rs tied by correspondence through a hook (all intermediate states). The location clause (position inside the first '
            'malformed definition) is decided by the search: single-token deletion / replacement / insertion in generated modules, '
            'LF/CRLF, comments, literal and file sources; Spec oracle evaluated in Coq on the reported numbers',
            '§6 C17',
            'partial: the location clause depends on the whole nom grammar and is search-only; columns are not part of the property',
            'Coq proof (invariant by induction over operations) + differential correspondence + corruption search'),
    'C13': ('proof',
            'Theorem for trivia of ANY length and composition (white-space, `-- .. --`, `-- .. EOL`, `/* .. */` also nested, arbitrary '
            'bytes inside): the skipper in front of every token parser removes it exactly; the block-comment scanner never reads out of '
            'range. Hand model of the scanners tied by correspondence through hooks (random piece concatenations incl. unterminated and '
            'overlapping forms). That each combinator site applies the skipper is measured: every token boundary of a module covering the '
            'layout grammar x every separator form, plus random multi-boundary re-layouts, compared with the canonical bindings',
            '§6 C13',
            'partial: per-site coverage is finite-by-measurement on one covering module (corpus re-layout not yet included); multi-word '
            'reserved words are a known finding',
            'Coq proof (strong induction over trivia) + differential correspondence + exhaustive boundary sweep'),
    'C07': ('proof',
            'Theorems for literals of ANY length: an hstring denotes the 4-bit expansion of each digit and a bstring bit i = (digit i '
            'is 1) through the quoted-form lexer; octets<->bits is the 8-bit big-endian expansion and exact in both directions; a '
            'named-bit list has ones exactly at the chosen names\' positions; a cstring with doubled quotation marks lexes to exactly the '
            'text and leaves exactly the rest (also when a doubled mark occurs later in the source), and a break over two lines with its '
            'surrounding spacing is not part of the value; OBJECT IDENTIFIER arcs in number / name(number) / bare-name form resolve '
            'to the numbers of the X.660 table. hex_to_bools and well_known are re-translated from the Rust source on every run; the '
            'hand model of the lexers and conversions is tied by correspondence through hooks. The composition through linker and '
            'generator (value references, governing types and reference chains, CHOICE/SEQUENCE/SEQUENCE OF, DEFAULT) is decided by '
            'search: every generated initialiser is evaluated symbolically and compared with the source value',
            '§6 C07',
            'partial: link_with_type and value_to_tokens are covered by the search only; initialiser type-correctness is C01\'s subject; '
            'cstring line joining is proved for one break; two known findings (one-component SEQUENCE values read as OID, letter arcs)',
            'Coq proof (induction over literal length, finite sweeps lifted) + regenerated tables + differential correspondence + '
            'symbolic evaluation of generated initialisers'),
    'C18': ('proof',
            'Theorems for types of ANY depth and width: the TypeScript declaration the back end renders is the canonical notation of the '
            'type\'s JER (X.697) shape -- members in order with `?` exactly for OPTIONAL / DEFAULT, arrays for SEQUENCE OF / SET OF with a '
            'union element parenthesised, string-literal unions of the enumeral names as written, a union of single-key objects for '
            'CHOICE, the index signature exactly for extensible SEQUENCE / SET, hyphens mangled in every identifier -- and its braces, '
            'brackets and parentheses are balanced. Hand model of type_to_tokens and the templates as token sequences, tied by '
            'correspondence on the tokenised real output. One declaration per type assignment in the module\'s namespace, names declared '
            'or imported, and the shape recovered by an independent structural TypeScript parser are decided by search over module sets',
            '§6 C18',
            'partial: the namespace / import wrapper and value rendering are covered by the search only; selection types, COMPONENTS OF '
            'and extension groups are outside the generator (two known findings)',
            'Coq proof (nested induction over the type) + differential correspondence on token sequences + independent TS shape parser'),
    'C20': ('proof',
            'Theorems over a model of compile() on the places it can touch (destination path, generated.<ext> inside a directory, a '
            'bystander): a failed compilation writes and overwrites nothing in any mode and destination state; file mode delivers exactly '
            'the text at the path or at generated.<ext> inside a directory and leaves everything else; an unwritable destination is Err '
            'and changes nothing; stdout / no-output deliver the text / nothing; the CLI exits 0 exactly when it has modules and the '
            'library returns Ok and picks up exactly *.asn / *.asn1; asn1! wraps snippets without BEGIN in the dummy module re-read from '
            'the derive crate on every run. Tied by correspondence on real directories (10 destination states incl. chattr +i '
            'write protection, whole-tree snapshots before/after, bytes compared with compile_to_string()) and real child processes of '
            'rasn_compiler_cli',
            '§6 C20',
            'partial: the file system is abstracted to the places compile() touches; partial writes on a mid-write I/O error cannot be '
            'provoked; the asn1! expansion itself is not executed (its wrapper is re-read from source)',
            'Coq proof over an abstract destination model + regenerated macro wrapper + differential correspondence on real file '
            'systems and child processes'),
    'C10': ('proof',
            'Theorems over a model of the compilation driver (the map keyed by bare name, validation, grouping by module, emission in key '
            'order, warning collection) that is parametric in what linker and generator do to one definition (any outcome function): for '
            'any number of sources, modules and assignments with distinct bare names every assignment is represented in its module\'s '
            'block, or is the subject of a warning, or is of a no-output kind; nothing is represented that is not an assignment with '
            'bindings; changing the outcome of one assignment leaves every other represented exactly as before. The hypothesis is shown '
            'necessary (C10_duplicate_names_refuted = known finding). Tied by correspondence: blocks, order of names and number of '
            'warnings of real compilations against the model inside Coq; item-by-item comparison of independent bindings with and '
            'without 1..3 replaced assignments; malformed inputs return no bindings',
            '§6 C10',
            'partial: the inside of linker and generator is abstract in the theorems (instantiated per generated definition by the '
            'search); warnings are counted, not attributed; two known findings',
            'Coq proof over a parametric driver model (sorted-map lemmas) + differential correspondence + differential locality search'),
    'C11': ('proof',
            'Theorems: the name-keyed map is canonical (insertion order irrelevant for distinct keys), hence blocks and warnings of the '
            'driver model depend only on the SET of definitions for any behaviour of linker and generator; permuting sources, modules in '
            'a source or assignments in a module are such permutations; with equal names the order matters (refuted = known finding). '
            'Search for what a theorem cannot carry: byte-identical bindings and equal sorted warnings across reversal, random and '
            'exhaustive (<= 5 units) permutations at all three levels, both back ends, repetition in one process, unrelated preceding '
            'compilations, 2..16 concurrent threads, real-world modules twice',
            '§6 C11',
            'partial: purity of linker and generator (no hashed iteration, no process-wide mutable state) is observed, not derived',
            'Coq proof (permutation invariance of the sorted map) + repetition / permutation / concurrency search'),
    'C12': ('proof',
            'Theorems: which definitions of a module reach the generator, and in which order, does not depend on the other modules of the '
            'compilation (sorted-map uniqueness); an IMPORTS clause of plain type and value references becomes a use line of exactly these '
            'symbols under their converted names, in order; a clause naming a class or parameterized reference becomes a wildcard (known '
            'finding). Search: sets of 2..5 modules with differing tagging / extensibility defaults and import graphs, some references '
            'module-qualified: each module\'s `pub mod` block compared between the compilation of all modules (several orders, one or '
            'several sources), of its import closure only and of random supersets; use lines against the model inside Coq',
            '§6 C12',
            'partial: that linking reads only imported modules and that defaults do not leak is decided by the comparison, not derived',
            'Coq proof (driver model + use-line model over the C16 name conversions) + differential compilation of module subsets'),
    'C19': ('proof',
            'Theorems: for any type_annotations (derives listed once, twice, not at all, any order) the derive list starts with the '
            'derives rasn needs (re-read from REQUIRED_DERIVES on every run), contains every requested derive and nothing twice; a From '
            'impl is generated exactly for the CHOICE alternatives whose payload type is unique in their CHOICE. Search for the claim '
            'about the whole generator: module sets compiled under the default configuration and under all 2^4 boolean combinations x '
            '{no, one, several} custom imports x 5 annotation sets; each module block split into use lines, From impls, statics and the '
            'rest -- the rest must be identical, use lines and statics differ only as documented, derive lists and From impls are '
            'compared with the model inside Coq',
            '§6 C19',
            'partial: "everything else is identical" is a differential observation over generated inputs; open types are not generated',
            'Coq proof (derive merging, From-impl filter) + regenerated constants + differential compilation across configurations'),
    'C02': ('proof',
            'Theorems for any number of components before and after the extension marker: a SEQUENCE / SET yields exactly one field, a '
            'CHOICE exactly one variant, per component, in source order, with the converted name and the written type (in-place types under '
            'the inner name, references title-cased and module-qualified, SequenceOf/SetOf around the element), wrapped in Option<_> exactly '
            'for OPTIONAL (and extension groups), with a default function exactly for DEFAULT, marked as extension addition exactly when '
            'written after the marker, boxed when recursive; nothing added, dropped, duplicated or reordered. The plain-member hypothesis '
            'is shown necessary (COMPONENTS OF in the root shifts the index: refuted = known finding). Hand model of the list assembly '
            'and of the member formatter over the C16 name conversions, tied by correspondence: the projected fields / variants of the '
            'type and of every in-place type below it compared with the model inside Coq; SET markers, default functions and in-place '
            'ENUMERATEDs checked on the projection',
            '§6 C02',
            'partial: the parser delivering the component lists in source order and the hoisting of in-place types are covered by the '
            'correspondence only; the Rust token of constrained INTEGER components comes from a fixed table (C06); one known finding',
            'Coq proof (list induction over the component lists) + differential correspondence on syn projections'),
    'C09': ('proof',
            'partial. Proved: one COMPONENTS OF linking step yields exactly the expansion when the notation comes last in the component '
            'list and the referenced SEQUENCE types are already expanded; the selection type picks the named alternative. The full '
            'statement (the linking pass equals the expansion for every definition) is false of the code and refuted inside Coq with '
            'three witnesses (copies appended instead of placed, chains depending on name order, SET types ignored = known findings). '
            'Hand model of the pass (descending name order over the sorted map, each definition against the current state of the others) '
            'tied by correspondence on the field names of every type of generated COMPONENTS OF chains; every disagreement with the '
            'expansion is classified into a known class. Search for the other notations: (sugared, hand-expanded) module pairs for '
            'value-reference chains and named numbers in constraints, parameterized types, selection types, fixed-type class fields, with '
            'names sorting before and after and shuffled definition order, compared item by item',
            '§6 C09',
            'partial: only the single step is proved; parameter substitution, constraint references and class fields are covered by the '
            'differential search only; three known findings',
            'Coq proof (single step) + refutation witnesses + differential correspondence + sugared-vs-expanded differential search'),
    'C01': ('proof',
            'partial. Type checking is rustc\'s and is not modelled. Modelled: the fragment of Rust\'s static semantics the generator can break '
            'by how it builds names and nesting -- unique item / member names, resolution of every mentioned type name, finite size. Theorems '
            'say what the checker\'s verdict guarantees (NoDup names; every mentioned name is an item or in the universe; an ordering in which '
            'every by-value containment goes backwards excludes any cycle, through any number of items). Correspondence: the checker runs '
            'inside Coq on the syn projection of each generated module and its three verdicts are compared with rustc\'s '
            'E0428/E0124, E0412, E0072 for that module. Search for the property itself: generator outputs (constructed types to depth 4, '
            'values and DEFAULTs, multi-module sets, recursion) under random backend configurations; every Ok-without-warnings result is '
            'written into one crate depending on rasn 0.27.0 (+ lazy_static) and `cargo check`ed; each rustc error is mapped back to its '
            'input; eleven known classes are probed on every run and kept out of the bulk generator',
            '§6 C01',
            'partial: no theorem about type checking; the generator is steered away from eleven known failing classes, so a new failure '
            'inside such a class is only seen through its probe',
            'Coq proof (name/resolution/finite-size checker) + correspondence against rustc diagnostics + cargo check of generated bindings'),
    'C08': ('proof',
            'partial. Proved for every input: the nestable-comment scanner never slices out of range; the error-excerpt arithmetic '
            '(until_next_unindented, contextualize) stays in range and on character boundaries for every report the position '
            'bookkeeping can produce (built on the C17 invariant). Decided by search: everything else -- both back ends and the '
            'rendering of every error and warning run in worker processes (panic hook, abort and 30 s hang detection) on notation '
            'coverage modules, all their prefixes, multi-byte insertions, token soup and token-level mutations of them and of the '
            '892 real-world modules',
            '§6 C08',
            'partial: nom, proc_macro2/quote, the linker and the generators are covered by search only; stack depth and time are '
            'runtime facts observed by the worker harness, not derived',
            'Coq proof of the hand-written index arithmetic + worker-process totality search'),
}
NOT_YET = 'check not built yet in this session (planned, see DESIGN.md §6); not claimed until its proof and correspondence run'


def main():
    props = [json.loads(l) for l in open(os.path.join(ROOT, 'properties.jsonl'))]
    hooks_commits = [l.strip() for l in open(os.path.join(ROOT, 'HOOK_COMMITS.txt')) if l.strip()]
    man = {
        'version': 1,
        'setup_cmd': './setup.sh',
        'hooks': {
            'guard': 'cargo feature verif-hooks (rasn-compiler/Cargo.toml), off by default',
            'enable': 'harness/Cargo.toml depends on /repo/rasn-compiler with features=["verif-hooks"]; cargo build --offline in /verif/harness',
            'baseline_off_cmd': 'cd /repo && cargo test --workspace --no-fail-fast --offline',
            'source_commits': hooks_commits,
            'add_only': True,
        },
        'engines': [{
            'name': ENGINE, 'path': 'check', 'serves_properties': sorted(CLAIMED),
            'kind_free_text': 'Coq 8.16 theorems over an executable Gallina model; table/ladder-shaped Rust re-translated on every run '
                              '(tools/translate.py -> coq/Gen); hand-modelled parts tied by differential correspondence (real compiler via '
                              'harness/ vs model evaluated with vm_compute inside coqc); Spec oracle evaluated in Coq on implementation '
                              'output as the failing-input search'}],
        'checks': [],
        'not_applicable': [],
        'notes': 'KNOWN_FINDINGS.txt lists known/fixed findings; replays/ holds replay files written by failing runs.',
    }
    for p in props:
        i = p['id']
        if i in CLAIMED:
            cat, text, ref, note, tech = CLAIMED[i]
            man['checks'].append({
                'property_id': i, 'quick_cmd': './check %s --tier quick' % i, 'thorough_cmd': './check %s --tier thorough' % i,
                'evidence_file': 'evidence/%s.json' % i, 'replay_cmd_template': './check %s --replay {path}' % i, 'engine': ENGINE,
                'level_claimed': {'category': cat, 'text': text, 'design_ref': ref}, 'level_note': note, 'technique': tech})
        else:
            man['not_applicable'].append({'property_id': i, 'reason': NOT_YET})
    with open(os.path.join(ROOT, 'MANIFEST.json'), 'w') as f:
        json.dump(man, f, indent=1)


if __name__ == '__main__':
    main()
